#!/usr/bin/env python3
"""confirm_seeded.py <agent-out-dir>/<i> <seeded-name> <property> -- confirm a sub-agent's change in a scratch
worktree (unchanged tree: demo passes; changed tree: builds, make check 170/170, demo fails), store it under
/verif/seeded/<name>/, then run the property's quick check against it by applying the patch to /repo and undoing
it straight afterwards."""
import json, os, re, shutil, subprocess, sys, time

VERIF = os.path.dirname(os.path.dirname(os.path.abspath(__file__)))
WT = "/tmp/cproc-confirm-wt"


def sh(cmd, **kw):
    return subprocess.run(cmd, shell=isinstance(cmd, str), stdout=subprocess.PIPE, stderr=subprocess.STDOUT, text=True, **kw)


def main():
    src, name, prop = sys.argv[1], sys.argv[2], sys.argv[3]
    checks = sys.argv[4:] or [prop]
    patch = os.path.join(src, "patch.diff")
    sh(["git", "-C", "/repo", "worktree", "remove", "--force", WT])
    r = sh(["git", "-C", "/repo", "worktree", "add", "--detach", WT, "HEAD"])
    assert r.returncode == 0, r.stdout
    ran = []
    try:
        b = sh("cd %s && ./configure >/dev/null && make -s -j8 2>&1 | tail -2" % WT)
        d0 = sh(["sh", os.path.join(src, "demo.sh"), WT], cwd=src)
        ran.append("unchanged tree: demo.sh rc=%d" % d0.returncode)
        a = sh(["git", "-C", WT, "apply", patch])
        assert a.returncode == 0, a.stdout
        b = sh("cd %s && make -s -j8 2>&1 | tail -2 && make check 2>&1 | tail -1" % WT)
        tests = b.stdout.strip().splitlines()[-1]
        ran.append("changed tree: make check: %s" % tests)
        d1 = sh(["sh", os.path.join(src, "demo.sh"), WT], cwd=src)
        ran.append("changed tree: demo.sh rc=%d" % d1.returncode)
        ok = d0.returncode == 0 and d1.returncode != 0 and "170/170" in tests
    finally:
        sh(["git", "-C", "/repo", "worktree", "remove", "--force", WT])
    print("\n".join(ran))
    if not ok:
        print("NOT CONFIRMED")
        print(d0.stdout[-600:], d1.stdout[-600:])
        return 1
    dst = os.path.join(VERIF, "seeded", name)
    shutil.rmtree(dst, ignore_errors=True)
    shutil.copytree(src, dst)
    # run our checks against it: apply to /repo, run, undo straight afterwards
    st = sh(["git", "-C", "/repo", "status", "--porcelain"])
    assert st.stdout.strip() == "", "/repo not clean: " + st.stdout
    results = {}
    env = dict(os.environ, VERIF_EVIDENCE_DIR="/tmp/cproc-seeded-evidence", VERIF_REPLAY_DIR="/tmp/cproc-seeded-replays")
    try:
        a = sh(["git", "-C", "/repo", "apply", patch])
        assert a.returncode == 0, a.stdout
        for c in checks:
            t0 = time.time()
            r = sh([os.path.join(VERIF, "bin", "check"), c, "--tier", "quick"], env=env)
            classes = sorted(set(re.findall(r"^\s+class: (.*)$", r.stdout, re.M)))
            sigs = sorted(set(re.findall(r"^\s+signature: (.*)$", r.stdout, re.M)))
            results[c] = {"rc": r.returncode, "classes": classes, "signatures": sigs[:8], "seconds": round(time.time() - t0)}
            print("check %s: rc=%d %s %s" % (c, r.returncode, classes, sigs[:6]))
            if r.returncode == 2:
                print(r.stdout[-800:])
    finally:
        sh(["git", "-C", "/repo", "checkout", "--", "."])
        shutil.rmtree("/tmp/cproc-seeded-evidence", ignore_errors=True)
        shutil.rmtree("/tmp/cproc-seeded-replays", ignore_errors=True)
    notes = open(os.path.join(src, "notes.md")).read()
    meta = {"property": prop, "origin": "independent sub-agent given only the property text and a scratch worktree",
            "needs_to_manifest": notes[:1500], "confirmed": ran, "checks_run": results,
            "caught_by": [c for c, v in results.items() if v["rc"] == 1]}
    json.dump(meta, open(os.path.join(dst, "meta.json"), "w"), indent=1)
    return 0


if __name__ == "__main__":
    sys.exit(main())
