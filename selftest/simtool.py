#!/usr/bin/env python3
"""Stand-in for cpp / cproc-qbe / qbe / as / ld used by selftest/calibrate.py on the REAL kernel.
Obeys the same conventions as the stub tools of simulator A: option grammar per tool, -o, one operand or stdin,
failure plan from $CALIB_PLAN ({"<kind>:<occurrence>": {"mode": "...", "code": N}})."""
import json, os, sys

KINDS = {"cpp": "preprocess", "cproc-qbe": "compile", "qbe": "codegen", "as": "assemble", "ld": "link"}
TAKES = {
    "preprocess": {"-D", "-U", "-I", "-include", "-isystem", "-idirafter", "-iquote", "-MF", "-MT", "-o"},
    "compile": {"-t", "-o"}, "codegen": {"-t", "-o"}, "assemble": {"-o"},
    "link": {"-o", "-L", "-l", "--dynamic-linker"},
}


def main():
    kind = KINDS[os.path.basename(sys.argv[0])]
    d = os.environ["CALIB_DIR"]
    # occurrence counter per kind (pipelines run one after the other; stages of one pipeline have distinct kinds)
    cf = os.path.join(d, "count-" + kind)
    try:
        occ = int(open(cf).read())
    except OSError:
        occ = 0
    open(cf, "w").write(str(occ + 1))
    fd = os.open(os.path.join(d, "log"), os.O_WRONLY | os.O_APPEND | os.O_CREAT, 0o644)
    os.write(fd, (json.dumps({"kind": kind, "occ": occ, "argv": sys.argv}) + "\n").encode())
    os.close(fd)
    plan = json.loads(os.environ.get("CALIB_PLAN", "{}")).get("%s:%d" % (kind, occ), {})
    mode, code = plan.get("mode", "none"), plan.get("code", 1)
    out, pos = None, []
    av = sys.argv[1:]
    i = 0
    while i < len(av):
        a = av[i]
        if a == "":
            pass
        elif len(a) > 1 and a[0] == "-":
            if a in TAKES[kind]:
                if i + 1 >= len(av):
                    sys.exit(1)
                if a == "-o":
                    out = av[i + 1]
                i += 1
        else:
            pos.append(a)
        i += 1
    if mode == "exit_before_open":
        sys.exit(code)
    o = open(out, "w") if out else sys.stdout
    if kind == "link":
        for p in pos:
            if not os.path.exists(p) or not open(p).read().endswith("complete\n"):
                sys.exit(1)
        if mode == "exit_before_read":
            sys.exit(code)
        o.write("linked %d\ncomplete\n" % len(pos))
    else:
        if len(pos) > 1:
            sys.exit(1)
        if pos and not os.path.exists(pos[0]):
            sys.exit(1)
        if mode == "exit_before_read":
            sys.exit(code)
        data = open(pos[0]).read() if pos else sys.stdin.read()
        o.write(kind + "\n" + "".join(l for l in data.splitlines(True) if l != "complete\n") + "complete\n")
    o.flush()
    if mode == "exit_after_all":
        sys.exit(code)
    sys.exit(0)


main()
