#!/usr/bin/env python3
"""Sensitivity self-test: apply each patch of selftest/mutants (or seeded/*/patch.diff) to a
scratch worktree of /repo, run the expected check against it (CPROC_REPO), report which fire.
Usage: run_mutants.py [--tests] [--tier quick] [name-substring ...]"""
import json, os, re, shutil, subprocess, sys, time

VERIF = os.path.dirname(os.path.dirname(os.path.abspath(__file__)))
WT = os.environ.get("MUTANT_WT", "/tmp/cproc-mutant-wt")


def sh(cmd, **kw):
    return subprocess.run(cmd, stdout=subprocess.PIPE, stderr=subprocess.STDOUT, text=True, **kw)


def main():
    args = [a for a in sys.argv[1:] if not a.startswith("--")]
    tests = "--tests" in sys.argv
    tier = "quick"
    if "--thorough" in sys.argv:
        tier = "thorough"
    muts = []
    md = os.path.join(VERIF, "selftest", "mutants")
    for f in sorted(os.listdir(md)):
        if f.endswith(".diff"):
            muts.append((f[:-5], os.path.join(md, f)))
    sd = os.path.join(VERIF, "seeded")
    if os.path.isdir(sd):
        for d in sorted(os.listdir(sd)):
            p = os.path.join(sd, d, "patch.diff")
            if os.path.exists(p):
                muts.append(("seeded/" + d, p))
    if args:
        muts = [m for m in muts if any(a in m[0] for a in args)]
    sh(["git", "-C", "/repo", "worktree", "remove", "--force", WT])
    r = sh(["git", "-C", "/repo", "worktree", "add", "--detach", WT, "HEAD"])
    if r.returncode:
        print(r.stdout)
        return 2
    env = dict(os.environ, CPROC_REPO=WT, VERIF_EVIDENCE_DIR=WT + "-evidence", VERIF_REPLAY_DIR=WT + "-replays")
    results = []
    try:
        for name, path in muts:
            text = open(path).read()
            m = re.search(r"^# expect: (.*)$", text, re.M)
            expect = m.group(1).split() if m else []
            meta = os.path.join(os.path.dirname(path), "meta.json")
            if not expect and os.path.exists(meta):
                mj = json.load(open(meta))
                expect = mj.get("expect_checks") or [mj.get("property")]
            r = sh(["git", "-C", WT, "apply", "--whitespace=nowarn", path])
            if r.returncode:
                print("%-45s PATCH DOES NOT APPLY: %s" % (name, r.stdout.strip()[:200]))
                results.append((name, "noapply"))
                continue
            line = "%-45s" % name
            if tests:
                b = sh(["sh", "-c", "cd %s && ./configure >/dev/null && make -s -j8 2>&1 | tail -3 && make check 2>&1 | tail -1" % WT])
                line += " tests[%s]" % b.stdout.strip().splitlines()[-1][:30]
            ok_all = True
            for chk in expect:
                t0 = time.time()
                c = sh([os.path.join(VERIF, "bin", "check"), chk, "--tier", tier], env=env)
                classes = sorted(set(re.findall(r"^\s+class: (.*)$", c.stdout, re.M)))
                sigs = sorted(set(re.findall(r"^\s+signature: (.*)$", c.stdout, re.M)))
                line += "  %s rc=%d %.0fs %s" % (chk, c.returncode, time.time() - t0, "; ".join(classes + sigs)[:160])
                if c.returncode != 1:
                    ok_all = False
                    if c.returncode == 2:
                        line += " [" + c.stdout.strip().splitlines()[-1][:120] + "]"
            print(line + ("" if ok_all else "   <== MISSED"), flush=True)
            results.append((name, "caught" if ok_all else "missed"))
            sh(["git", "-C", WT, "checkout", "-q", "--", "."])
            sh(["git", "-C", WT, "clean", "-qfdx"])
    finally:
        sh(["git", "-C", "/repo", "worktree", "remove", "--force", WT])
        shutil.rmtree(WT + "-evidence", ignore_errors=True)
        shutil.rmtree(WT + "-replays", ignore_errors=True)
    n = sum(1 for _, s in results if s == "caught")
    print("caught %d of %d" % (n, len(results)))
    return 0


if __name__ == "__main__":
    sys.exit(main())
