#!/usr/bin/env python3
"""confirm5.py <seeded-name> ... -- confirm round-5 sub-agent changes (convention: an executable `demonstration`
taking the path of a built tree, printing VIOLATED / DIFFERENT on the changed tree only).  For each: scratch
worktree of /repo HEAD, build, run the demonstration (must not report a violation); apply patch.diff, build,
`make check` must be 170/170, run the demonstration (must report one).  Writes the result into meta.json."""
import json, os, re, shutil, subprocess, sys

VERIF = os.path.dirname(os.path.dirname(os.path.abspath(__file__)))
WT = os.environ.get("CONFIRM_WT", "/tmp/cproc-confirm5-wt")
BAD = re.compile(r"VIOLAT|DIFFERENT|DIFFER\b|NONDETERMINISTIC", re.I)


def sh(cmd, **kw):
    return subprocess.run(cmd, shell=isinstance(cmd, str), stdout=subprocess.PIPE, stderr=subprocess.STDOUT, text=True, **kw)


def demo1(d, arg):
    try:
        r = sh([os.path.join(d, "demonstration"), arg], cwd=d, timeout=1200)  # its own #! line decides the shell
        return r.returncode, r.stdout
    except subprocess.TimeoutExpired as e:
        o = e.stdout or ""
        return 124, (o.decode("utf-8", "replace") if isinstance(o, bytes) else o) + "\n[timeout]"


FORMS = ("", "cproc-qbe", "cproc")  # the argument is the built tree, or (some demonstrations) a binary inside it


def demo(d):
    return [demo1(d, os.path.join(WT, f) if f else WT) for f in FORMS]


def main():
    for name in sys.argv[1:]:
        d = os.path.join(VERIF, "seeded", name)
        sh(["git", "-C", "/repo", "worktree", "remove", "--force", WT])
        r = sh(["git", "-C", "/repo", "worktree", "add", "--detach", WT, "HEAD"])
        assert r.returncode == 0, r.stdout
        try:
            sh("cd %s && ./configure >/dev/null && make -s -j8 2>&1 | tail -2" % WT)
            res0 = demo(d)
            a = sh(["git", "-C", WT, "apply", os.path.join(d, "patch.diff")])
            if a.returncode:
                print("%-24s PATCH DOES NOT APPLY %s" % (name, a.stdout.strip()[:100]))
                continue
            b = sh("cd %s && make -s -j8 2>&1 | tail -2 && make check 2>&1 | tail -1" % WT)
            tests = b.stdout.strip().splitlines()[-1]
            res1 = demo(d)
        finally:
            sh(["git", "-C", "/repo", "worktree", "remove", "--force", WT])
        # the form of argument under which the unchanged tree is fine and the changed tree is not
        pick = 0
        for i in range(len(FORMS)):
            if res0[i][0] == 0 and not BAD.search(res0[i][1]) and BAD.search(res1[i][1]):
                pick = i
                break
        (rc0, out0), (rc1, out1) = res0[pick], res1[pick]
        v0, v1 = bool(BAD.search(out0)), bool(BAD.search(out1))
        ok = "170/170" in tests and v1 and not v0 and rc0 == 0
        mp = os.path.join(d, "meta.json")
        m = json.load(open(mp))
        m["confirmed"] = {"make_check_with_change": tests, "demonstration_unchanged_tree": {"rc": rc0, "reports_violation": v0, "last_line": out0.strip().splitlines()[-1][:160] if out0.strip() else ""},
                          "demonstration_changed_tree": {"rc": rc1, "reports_violation": v1, "last_line": out1.strip().splitlines()[-1][:160] if out1.strip() else ""}, "ok": ok, "base": sh(["git", "-C", "/repo", "rev-parse", "--short", "HEAD"]).stdout.strip()}
        json.dump(m, open(mp, "w"), indent=1)
        print("%-24s %s tests[%s] unchanged:%s changed:%s" % (name, "CONFIRMED" if ok else "NOT CONFIRMED", tests, "violation" if v0 else "ok", "violation" if v1 else "ok"), flush=True)


if __name__ == "__main__":
    main()
