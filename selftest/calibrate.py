#!/usr/bin/env python3
"""Calibration self-test of simulator A's kernel model against the real kernel (development-time; not a registered
check, because it runs real processes whose timing the simulator does not own).

For race-free scenarios - fault-free command lines from the C17 grammar, and single deterministic tool failures
whose observable outcome does not depend on ordering - the REAL driver built from /repo is run with stand-in tools
(selftest/simtool.py) on the real kernel, the same scenario is replayed in the simulator, and the two are compared:
multiset of tool command lines, driver exit status, files created, temporaries left.
Usage: calibrate.py [N scenarios, default 400]"""
import json, os, re, shutil, subprocess, sys, tempfile

VERIF = os.path.dirname(os.path.dirname(os.path.abspath(__file__)))
sys.path.insert(0, os.path.join(VERIF, "lib"))
import build  # noqa: E402

TRIPLE = "x86_64-linux-gnu"


def norm_argv(av, tmpmap):
    out = [os.path.basename(av[0])]
    for a in av[1:]:
        m = re.match(r"^/tmp/cproc-\w{6}$", a)
        if m:
            a = tmpmap.setdefault(a, "<tmp%d>" % len(tmpmap))
        out.append(a)
    return out


def usable(sc):
    names = [a for a in sc["argv"][1:]]
    for a in names:
        if " " in a or a == "":
            return False  # the simulator's text log joins arguments with spaces
        if a.startswith("/") or ".." in a or a.startswith("./."):
            return False
        if re.search(r"(^|[=,])/", a):
            return False
    if sc["faults"] or sc["missing_tools"] or sc["readlink_fail"] or sc.get("stdin_stays_open") or sc.get("sigchld_ignored"):
        return False
    for p in sc["plans"]:
        if p["mode"] not in ("none", "exit1_before_read", "exit1_after_all"):
            return False
    return len(sc["plans"]) <= 1


def main():
    n = int(sys.argv[1]) if len(sys.argv) > 1 else 400
    exes = build.build_simA()
    sim = exes[TRIPLE]
    top = tempfile.mkdtemp(prefix="calib-", dir="/tmp")
    bindir = os.path.join(top, "bin")
    os.makedirs(bindir)
    bd = os.path.dirname(sim)
    # the real driver, same sources, same generated config.h as the simulator's x86_64 build
    subprocess.run(["cc", "-std=c99", "-O1", "-w", "-o", os.path.join(bindir, "cproc"), os.path.join(bd, "driver.c"), os.path.join(bd, "util.c")], check=True, cwd=bd)
    tool = os.path.join(VERIF, "selftest", "simtool.py")
    for t in ("cpp", "qbe", "as", "ld", "cproc-qbe"):
        p = os.path.join(bindir, t)
        # the tool identifies itself by argv[0]: a tiny wrapper that preserves the name
        open(p, "w").write("#!%s\nimport sys\nsys.argv[0] = %r\nexec(compile(open(%r).read(), %r, 'exec'))\n" % (os.path.realpath(sys.executable), t, tool, tool))
        os.chmod(p, 0o755)
    done = agree = nfail = nusage = 0
    axes = {"path_decoys": 0, "output_symlink": 0, "sigterm_inherited": 0, "stdin_closed": 0}
    bad = []
    idx = 0
    try:
        while done < n and idx < n * 20:
            prop = "C17" if idx % 2 == 0 else "C18"
            r = subprocess.run([sim, "gen", "--prop", prop, "--seed", "7", "--index", str(idx)], stdout=subprocess.PIPE, text=True)
            idx += 1
            sc = json.loads(r.stdout)
            if not usable(sc):
                continue
            done += 1
            sc["explicit_choices"] = True
            sc["choices"] = []
            sc["stray_exit_step"] = -1
            sfile = os.path.join(top, "sc.json")
            json.dump({"scenario": sc}, open(sfile, "w"))
            s = subprocess.run([sim, "replay", sfile, "--log", "--known", "D6"], stdout=subprocess.PIPE, text=True)
            sim_spawns, sim_fs, sim_status = [], set(), None
            sim_links = []
            tm = {}
            for ln in s.stdout.splitlines():
                m = re.match(r"^\[\d+\] spawn (.*) -> pid \d+", ln)
                if m:
                    sim_spawns.append(m.group(1).split(" "))
                m = re.match(r"^SYMLINK (\S+) -> (\S+)$", ln)
                if m:
                    sim_links.append((m.group(1), m.group(2)))
                m = re.match(r"^FS:(.*)$", ln)
                if m:
                    sim_fs = set(m.group(1).split())
                m = re.match(r"^STATUS: (-?\d+)", ln)
                if m:
                    sim_status = int(m.group(1))
            if any("''" in a for sp in sim_spawns for a in sp):
                done -= 1
                continue  # empty arguments cannot be recovered from the log text
            # real run
            cwd = os.path.join(top, "cwd")
            shutil.rmtree(cwd, ignore_errors=True)
            os.makedirs(cwd)
            for d in ("src", "build", "src.d", "inc", "a-b"):
                os.makedirs(os.path.join(cwd, d), exist_ok=True)
            for name, units in sc["files"]:
                os.makedirs(os.path.dirname(os.path.join(cwd, name)) or cwd, exist_ok=True)
                open(os.path.join(cwd, name), "w").write("".join("u%d\n" % i for i in range(units)) + "complete\n")
            for name, target in sim_links:
                os.makedirs(os.path.dirname(os.path.join(cwd, target)), exist_ok=True)
                open(os.path.join(cwd, target), "w").write("")
                os.makedirs(os.path.dirname(os.path.join(cwd, name)) or cwd, exist_ok=True)
                os.symlink(os.path.relpath(os.path.join(cwd, target), os.path.dirname(os.path.join(cwd, name)) or cwd), os.path.join(cwd, name))
            cdir = os.path.join(top, "calib")
            shutil.rmtree(cdir, ignore_errors=True)
            os.makedirs(cdir)
            plan = {}
            for p in sc["plans"]:
                mode = {"exit1_before_read": "exit_before_read", "exit1_after_all": "exit_after_all"}.get(p["mode"], "none")
                if p["mode"] == "exit1_before_read" and (p["param"] & 1):
                    mode = "exit_before_open"
                plan["%s:%d" % (p["stage"], p["occ"])] = {"mode": mode, "code": p.get("code") or 1}
            before = set(f for f in os.listdir("/tmp") if f.startswith("cproc-"))
            path = bindir
            if sc.get("path_decoys"):
                # an earlier PATH entry that holds a directory under the tool's name
                dd = os.path.join(top, "decoy")
                shutil.rmtree(dd, ignore_errors=True)
                for t in sc["path_decoys"]:
                    os.makedirs(os.path.join(dd, os.path.basename(t)), exist_ok=True)
                path = dd + ":" + bindir
            env = {"PATH": path, "CALIB_DIR": cdir, "CALIB_PLAN": json.dumps(plan)}

            def pre(sc=sc):
                import signal
                if sc.get("sigterm_inherited") == 1:
                    signal.signal(signal.SIGTERM, signal.SIG_IGN)
                elif sc.get("sigterm_inherited") == 2:
                    signal.pthread_sigmask(signal.SIG_BLOCK, {signal.SIGTERM})
                if sc.get("stdin_closed"):
                    os.close(0)
            if sc.get("stdin_closed"):
                rr = subprocess.run([os.path.join(bindir, "cproc")] + sc["argv"][1:], cwd=cwd, env=env, stdout=subprocess.PIPE, stderr=subprocess.PIPE, text=True, preexec_fn=pre)
            else:
                rr = subprocess.run([os.path.join(bindir, "cproc")] + sc["argv"][1:], cwd=cwd, env=env, input="i0\ni1\n", stdout=subprocess.PIPE, stderr=subprocess.PIPE, text=True, preexec_fn=pre)
            real_status = rr.returncode
            real_spawns = []
            lp = os.path.join(cdir, "log")
            if os.path.exists(lp):
                for ln in open(lp):
                    real_spawns.append(json.loads(ln)["argv"])
            left = set(f for f in os.listdir("/tmp") if f.startswith("cproc-")) - before
            real_fs = set()
            initial = set(os.path.normpath(nm) for nm, _ in sc["files"])
            for root, _, files in os.walk(cwd):
                for f in files:
                    rel = os.path.relpath(os.path.join(root, f), cwd)
                    if rel not in initial:
                        real_fs.add(rel + "@" if os.path.islink(os.path.join(root, f)) else rel)
            for f in left:
                real_fs.add("<tmp>")
                os.unlink(os.path.join("/tmp", f))
            tmr = {}
            a = sorted(json.dumps(norm_argv(x, tm)) for x in sim_spawns)
            b = sorted(json.dumps(norm_argv(x, tmr)) for x in real_spawns)
            # temporaries are numbered by first appearance; compare shapes
            a = sorted(re.sub(r"<tmp\d+>", "<tmp>", x) for x in a)
            b = sorted(re.sub(r"<tmp\d+>", "<tmp>", x) for x in b)
            sim_fs_n = set("<tmp>" if re.match(r"^/tmp/cproc-", f) else os.path.normpath(f) for f in sim_fs)
            failure = bool(plan)
            nfail += failure
            for k in axes:
                axes[k] += 1 if (sim_links if k == "output_symlink" else sc.get(k)) else 0
            nusage += real_status == 2
            ok = sim_status == real_status and sim_fs_n == real_fs and (failure or a == b)
            if ok:
                agree += 1
            else:
                bad.append({"argv": sc["argv"], "plan": plan, "sim": [sim_status, sorted(sim_fs_n), a], "real": [real_status, sorted(real_fs), b]})
    finally:
        shutil.rmtree(top, ignore_errors=True)
    print("calibration: %d race-free scenarios (%d with a failing tool, %d usage errors), simulator and real kernel agree on %d" % (done, nfail, nusage, agree))
    print("  environments among them: %s" % ", ".join("%s %d" % kv for kv in sorted(axes.items())))
    for x in bad[:5]:
        print(json.dumps(x, indent=1)[:1500])
    return 0 if not bad else 1


if __name__ == "__main__":
    sys.exit(main())
