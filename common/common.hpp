// Common layer shared by both simulators: seeded choice streams, hashing,
// and a minimal JSON value (writer + parser) for plans, replay files and
// result records.  No dependency beyond the C++17 standard library.
#pragma once
#include <cstdint>
#include <cstdio>
#include <cstdlib>
#include <cstring>
#include <map>
#include <memory>
#include <string>
#include <vector>
#include <unistd.h>

namespace vf {

static inline uint64_t splitmix64(uint64_t &s) {
	uint64_t z = (s += 0x9e3779b97f4a7c15ULL);
	z = (z ^ (z >> 30)) * 0xbf58476d1ce4e5b9ULL;
	z = (z ^ (z >> 27)) * 0x94d049bb133111ebULL;
	return z ^ (z >> 31);
}

static inline uint64_t mix(uint64_t a, uint64_t b) {
	uint64_t s = a ^ (b + 0x9e3779b97f4a7c15ULL + (a << 6) + (a >> 2));
	return splitmix64(s);
}

static inline uint64_t hash_bytes(const void *p, size_t n, uint64_t h = 0xcbf29ce484222325ULL) {
	const unsigned char *c = (const unsigned char *)p;
	for (size_t i = 0; i < n; i++) {
		h ^= c[i];
		h *= 0x100000001b3ULL;
	}
	return h;
}
static inline uint64_t hash_str(const std::string &s, uint64_t h = 0xcbf29ce484222325ULL) {
	return hash_bytes(s.data(), s.size(), hash_bytes("\x01", 1, h));
}

// Derive the seed of run `index` of property `prop` in a batch seeded by
// VERIF_SEED.  Independent of worker count and of which worker runs it.
static inline uint64_t run_seed(uint64_t verif_seed, const char *prop, uint64_t index) {
	uint64_t h = hash_bytes(prop, strlen(prop));
	return mix(mix(verif_seed, h), index);
}

struct Rng {
	uint64_t s;
	explicit Rng(uint64_t seed = 0) : s(seed) {}
	uint64_t next() { return splitmix64(s); }
	uint32_t below(uint32_t n) { return n <= 1 ? 0 : (uint32_t)(next() % n); }
	bool coin(uint32_t num, uint32_t den) { return below(den) < num; }
	template <class T> const T &pick(const std::vector<T> &v) { return v[below((uint32_t)v.size())]; }
};

// A choice sequence: in search mode values come from a PRNG and are
// recorded; in replay mode they come from an explicit list, each entry taken
// modulo the number of options enabled at that point, 0 when exhausted.
struct Chooser {
	bool explicit_list = false;
	std::vector<uint32_t> list;
	size_t pos = 0;
	Rng rng{0};
	std::vector<uint32_t> made;
	uint32_t pick(uint32_t n) {
		uint32_t v;
		if (n == 0) n = 1;
		if (explicit_list) {
			v = pos < list.size() ? list[pos] % n : 0;
			pos++;
		} else {
			v = rng.below(n);
		}
		made.push_back(v);
		return v;
	}
};

// ---------------------------------------------------------------- JSON
struct Json;
using JsonP = std::shared_ptr<Json>;
struct Json {
	enum T { NUL, BOOL, NUM, STR, ARR, OBJ } t = NUL;
	bool b = false;
	double num = 0;
	int64_t inum = 0;
	bool is_int = false;
	std::string s;
	std::vector<Json> a;
	std::vector<std::pair<std::string, Json>> o;

	Json() {}
	Json(bool v) : t(BOOL), b(v) {}
	Json(int v) : t(NUM), num(v), inum(v), is_int(true) {}
	Json(unsigned v) : t(NUM), num(v), inum(v), is_int(true) {}
	Json(long v) : t(NUM), num((double)v), inum(v), is_int(true) {}
	Json(unsigned long v) : t(NUM), num((double)v), inum((int64_t)v), is_int(true) {}
	Json(long long v) : t(NUM), num((double)v), inum(v), is_int(true) {}
	Json(unsigned long long v) : t(NUM), num((double)v), inum((int64_t)v), is_int(true) {}
	Json(double v) : t(NUM), num(v) {}
	Json(const char *v) : t(STR), s(v) {}
	Json(const std::string &v) : t(STR), s(v) {}
	static Json arr() { Json j; j.t = ARR; return j; }
	static Json obj() { Json j; j.t = OBJ; return j; }
	Json &push(const Json &v) { t = ARR; a.push_back(v); return *this; }
	Json &set(const std::string &k, const Json &v) {
		t = OBJ;
		for (auto &kv : o) if (kv.first == k) { kv.second = v; return *this; }
		o.emplace_back(k, v);
		return *this;
	}
	const Json *get(const std::string &k) const {
		for (auto &kv : o) if (kv.first == k) return &kv.second;
		return nullptr;
	}
	bool has(const std::string &k) const { return get(k) != nullptr; }
	int64_t geti(const std::string &k, int64_t d = 0) const {
		const Json *j = get(k);
		if (!j) return d;
		if (j->t == BOOL) return j->b;
		return j->is_int ? j->inum : (int64_t)j->num;
	}
	uint64_t getu(const std::string &k, uint64_t d = 0) const {
		const Json *j = get(k);
		if (!j) return d;
		if (j->t == STR) return strtoull(j->s.c_str(), nullptr, 0);
		return (uint64_t)(j->is_int ? j->inum : (int64_t)j->num);
	}
	std::string gets(const std::string &k, const std::string &d = "") const {
		const Json *j = get(k);
		return j && j->t == STR ? j->s : d;
	}
	bool getb(const std::string &k, bool d = false) const {
		const Json *j = get(k);
		if (!j) return d;
		return j->t == BOOL ? j->b : (j->is_int ? j->inum != 0 : j->num != 0);
	}

	static void esc(std::string &out, const std::string &s) {
		out += '"';
		for (unsigned char c : s) {
			switch (c) {
			case '"': out += "\\\""; break;
			case '\\': out += "\\\\"; break;
			case '\n': out += "\\n"; break;
			case '\r': out += "\\r"; break;
			case '\t': out += "\\t"; break;
			default:
				if (c < 0x20 || c >= 0x7f) {
					char buf[8];
					snprintf(buf, sizeof buf, "\\u%04x", c);
					out += buf;
				} else out += (char)c;
			}
		}
		out += '"';
	}
	void dump(std::string &out) const {
		char buf[40];
		switch (t) {
		case NUL: out += "null"; break;
		case BOOL: out += b ? "true" : "false"; break;
		case NUM:
			if (is_int) snprintf(buf, sizeof buf, "%lld", (long long)inum);
			else snprintf(buf, sizeof buf, "%.17g", num);
			out += buf;
			break;
		case STR: esc(out, s); break;
		case ARR:
			out += '[';
			for (size_t i = 0; i < a.size(); i++) { if (i) out += ','; a[i].dump(out); }
			out += ']';
			break;
		case OBJ:
			out += '{';
			for (size_t i = 0; i < o.size(); i++) {
				if (i) out += ',';
				esc(out, o[i].first);
				out += ':';
				o[i].second.dump(out);
			}
			out += '}';
			break;
		}
	}
	std::string str() const { std::string s2; dump(s2); return s2; }

	// ---- parser
	struct P {
		const char *p, *e;
		bool ok = true;
		void ws() { while (p < e && (*p == ' ' || *p == '\n' || *p == '\t' || *p == '\r')) p++; }
		Json val() {
			ws();
			Json j;
			if (p >= e) { ok = false; return j; }
			if (*p == '{') {
				p++; j.t = OBJ; ws();
				if (p < e && *p == '}') { p++; return j; }
				for (;;) {
					ws();
					Json k = val();
					if (!ok || k.t != STR) { ok = false; return j; }
					ws();
					if (p >= e || *p != ':') { ok = false; return j; }
					p++;
					Json v = val();
					if (!ok) return j;
					j.o.emplace_back(k.s, v);
					ws();
					if (p < e && *p == ',') { p++; continue; }
					if (p < e && *p == '}') { p++; return j; }
					ok = false; return j;
				}
			}
			if (*p == '[') {
				p++; j.t = ARR; ws();
				if (p < e && *p == ']') { p++; return j; }
				for (;;) {
					Json v = val();
					if (!ok) return j;
					j.a.push_back(v);
					ws();
					if (p < e && *p == ',') { p++; continue; }
					if (p < e && *p == ']') { p++; return j; }
					ok = false; return j;
				}
			}
			if (*p == '"') {
				p++; j.t = STR;
				while (p < e && *p != '"') {
					if (*p == '\\' && p + 1 < e) {
						p++;
						switch (*p) {
						case 'n': j.s += '\n'; break;
						case 't': j.s += '\t'; break;
						case 'r': j.s += '\r'; break;
						case 'b': j.s += '\b'; break;
						case 'f': j.s += '\f'; break;
						case 'u': {
							if (p + 4 < e) {
								char h[5] = {p[1], p[2], p[3], p[4], 0};
								unsigned c = (unsigned)strtoul(h, nullptr, 16);
								if (c < 0x100) j.s += (char)c;
								else if (c < 0x800) { j.s += (char)(0xc0 | c >> 6); j.s += (char)(0x80 | (c & 0x3f)); }
								else { j.s += (char)(0xe0 | c >> 12); j.s += (char)(0x80 | ((c >> 6) & 0x3f)); j.s += (char)(0x80 | (c & 0x3f)); }
								p += 4;
							}
							break;
						}
						default: j.s += *p;
						}
						p++;
					} else j.s += *p++;
				}
				if (p >= e) { ok = false; return j; }
				p++;
				return j;
			}
			if (!strncmp(p, "true", 4) && e - p >= 4) { p += 4; return Json(true); }
			if (!strncmp(p, "false", 5) && e - p >= 5) { p += 5; return Json(false); }
			if (!strncmp(p, "null", 4) && e - p >= 4) { p += 4; return j; }
			const char *q = p;
			bool isint = true;
			if (q < e && (*q == '-' || *q == '+')) q++;
			while (q < e && ((*q >= '0' && *q <= '9') || *q == '.' || *q == 'e' || *q == 'E' || *q == '-' || *q == '+')) {
				if (*q == '.' || *q == 'e' || *q == 'E') isint = false;
				q++;
			}
			if (q == p) { ok = false; return j; }
			std::string numstr(p, q);
			j.t = NUM;
			j.is_int = isint;
			if (isint) { j.inum = strtoll(numstr.c_str(), nullptr, 10); j.num = (double)j.inum; }
			else j.num = strtod(numstr.c_str(), nullptr);
			p = q;
			return j;
		}
	};
	static bool parse(const std::string &text, Json &out) {
		P p{text.data(), text.data() + text.size()};
		out = p.val();
		p.ws();
		return p.ok;
	}
};

static inline bool read_file(const std::string &path, std::string &out) {
	FILE *f = fopen(path.c_str(), "rb");
	if (!f) return false;
	char buf[65536];
	size_t n;
	out.clear();
	while ((n = fread(buf, 1, sizeof buf, f)) > 0) out.append(buf, n);
	fclose(f);
	return true;
}
// atomic: several workers may report the same violation class at once
static inline bool write_file(const std::string &path, const std::string &data) {
	char suffix[64];
	snprintf(suffix, sizeof suffix, ".tmp.%ld", (long)getpid());
	std::string tmp = path + suffix;
	FILE *f = fopen(tmp.c_str(), "wb");
	if (!f) return false;
	bool ok = fwrite(data.data(), 1, data.size(), f) == data.size();
	ok = fclose(f) == 0 && ok;
	if (ok) ok = rename(tmp.c_str(), path.c_str()) == 0;
	else remove(tmp.c_str());
	return ok;
}
static inline std::string hex64(uint64_t v) {
	char b[20];
	snprintf(b, sizeof b, "%016llx", (unsigned long long)v);
	return b;
}

} // namespace vf
