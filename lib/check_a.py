"""Checks C17 and C18: the real driver over the simulated POSIX kernel (simulator A)."""
import array
import json
import os
import shutil
import subprocess
import sys
import tempfile
import time

import build
import vcommon as vc

NCPU = os.cpu_count() or 4

BUDGET = {
    # per triple
    ("C17", "quick"): dict(count=30000, det=300),
    ("C17", "thorough"): dict(count=600000, det=5000),
    ("C18", "quick"): dict(per_cell=50, det=300, relaxed=4000),
    ("C18", "thorough"): dict(per_cell=1100, det=5000, relaxed=100000),
}

ASSUME = [
    "the simulated kernel (pipes, descriptor inheritance, wait/kill, mkstemp/unlink; DESIGN.md 2.2) reproduces the POSIX behaviour the driver depends on; EINTR, stopped children and descriptor limits are not modelled",
    "stub tools stand in for cpp/cproc-qbe/qbe/as/ld: they obey each tool's option grammar for -o and operands and tag the data they pass on, nothing more",
    "driver.c and util.c are the real sources from /repo's working tree, compiled unmodified with -Dmain=cproc_driver_main and linked with -Wl,--wrap for every system interface they import (audited with nm)",
]


def known_args(prop):
    # the driver's two checks share one simulator: shapes listed for either property are recognised by both
    ids = [k["id"] for p in ("C17", "C18") for k in vc.open_findings(p) if k["id"]]
    return (["--known", ",".join(ids)] if ids else []), ids


def replay(prop, path):
    exes = build.build_simA()
    try:
        j = json.load(open(path))
    except Exception as e:
        print("cannot read replay file: %s" % e)
        return 2
    sc = j.get("scenario", j)
    triple = sc.get("target", build.TRIPLES[0])
    ka, _ = known_args(prop)
    r = subprocess.run([exes[triple], "replay", path, "--log"] + ka)
    return r.returncode


def run(prop, tier):
    t0 = time.time()
    seed = vc.seed()
    b = BUDGET[(prop, tier)]
    exes = build.build_simA()
    info = json.loads(subprocess.run([exes[build.TRIPLES[0]], "info"], stdout=subprocess.PIPE, text=True).stdout)
    if prop == "C18":
        count = info["c18_cells"] * b["per_cell"]
    else:
        count = b["count"]
    ka, known_ids = known_args(prop)
    # every open known finding is replayed first; it is listed only while it still reproduces
    for k in vc.open_findings(prop):
        shown = False
        if k["repro"]:
            rp = os.path.join(vc.VERIF, k["repro"])
            tr = json.load(open(rp)).get("scenario", {}).get("target", build.TRIPLES[0])
            r = subprocess.run([exes[tr], "replay", rp] + ka, stdout=subprocess.PIPE, text=True)
            if r.returncode == 0 and ("known: %s" % k["id"]) in r.stdout:
                shown = True
            elif r.returncode != 0:
                print("note: reproducer of %s now reports a violation outside the listed shape" % k["id"])
        if shown:
            print("KNOWN-FINDING: property=%s %s (%s)" % (prop, k["text"], k["id"]))
    work = tempfile.mkdtemp(prefix="simA-%s-" % prop, dir=build.BUILD)
    os.makedirs(vc.REPLAYS, exist_ok=True)
    try:
        nw = max(1, (NCPU - 1) // 3)
        cmds, outs = [], []
        det = min(b["det"], count)
        for t in build.TRIPLES:
            for w in range(nw):
                out = os.path.join(work, "%s-%d.json" % (t, w))
                per = (count - w + nw - 1) // nw
                c = [exes[t], "run", "--prop", prop, "--seed", str(seed), "--start", str(w), "--stride", str(nw), "--count", str(per),
                     "--out", out, "--replay-dir", vc.REPLAYS] + ka
                if t == build.TRIPLES[0]:
                    c += ["--hashes", out + ".idx", "--hashes-below", str(det)]
                cmds.append(c)
                outs.append((t, out, "main"))
        relaxed_n = b.get("relaxed", 0)
        if relaxed_n:
            out = os.path.join(work, "relaxed.json")
            cmds.append([exes[build.TRIPLES[0]], "run", "--prop", prop, "--seed", str(seed + 7919), "--start", "0", "--stride", "1",
                         "--count", str(relaxed_n), "--relaxed", "--out", out, "--replay-dir", vc.REPLAYS] + ka)
            outs.append((build.TRIPLES[0], out, "relaxed"))
        res = vc.run_pool(cmds)
        # determinism gate: the same indices again, other worker count, other processes
        gate_cmds = []
        for w in range(2):
            out = os.path.join(work, "gate-%d.json" % w)
            gate_cmds.append([exes[build.TRIPLES[0]], "run", "--prop", prop, "--seed", str(seed), "--start", str(w), "--stride", "2",
                              "--count", str((det - w + 1) // 2), "--out", out, "--hashes", out + ".idx", "--replay-dir", os.path.join(work, "gate-replays")] + ka)
        gres = vc.run_pool(gate_cmds)

        rc = 0
        violations = 0
        for (code, text), c in zip(res, cmds):
            for ln in text.splitlines():
                print(ln)
            if code == 1:
                rc = max(rc, 1)
            elif code != 0:
                print("HARNESS-ERROR worker exit %d: %s" % (code, " ".join(c)))
                rc = 2
            violations += text.count("VIOLATION property=")

        def load_idx(paths):
            m = {}
            for p in paths:
                if os.path.exists(p):
                    for ln in open(p):
                        a, h = ln.split()
                        m[int(a)] = h
            return m
        first = load_idx([o + ".idx" for (t, o, kind) in outs if t == build.TRIPLES[0] and kind == "main"])
        second = load_idx([os.path.join(work, "gate-%d.json.idx" % w) for w in range(2)])
        compared = 0
        mism = []
        for i, h in second.items():
            if i in first:
                compared += 1
                if first[i] != h:
                    mism.append(i)
        if mism:
            print("HARNESS-ERROR determinism gate: %d of %d runs gave a different event log when repeated (first index %d)" % (len(mism), compared, mism[0]))
            rc = 2
        if compared < min(det, count) * 0.9:
            print("HARNESS-ERROR determinism gate compared only %d runs" % compared)
            rc = 2

        # merge statistics
        tot = dict(runs=0, nontrivial=0, steps=0, spawns=0, resched=0, crashes=0)
        maps = {k: {} for k in ("fired", "configured", "probes", "verdicts", "known", "cells", "cells_fired", "status", "other_property_classes")}
        rel = None
        absstates = set()
        hashes = set()
        samples = []
        per_triple = {}
        for (t, o, kind) in outs:
            if not os.path.exists(o):
                continue
            j = json.load(open(o))
            if kind == "relaxed":
                rel = j
                continue
            for k in tot:
                tot[k] += j.get(k, 0)
            for k in maps:
                vc.merge_counts(maps[k], j.get(k, {}))
            absstates.update(j.get("abs", []))
            per_triple[t] = per_triple.get(t, 0) + j.get("runs", 0)
            if len(samples) < 3:
                samples.extend(j.get("samples", [])[:1])
            hp = o + ".hashes"
            if os.path.exists(hp):
                a = array.array("Q")
                with open(hp, "rb") as f:
                    a.frombytes(f.read())
                hashes.update(a)
        wall = time.time() - t0
        cov = {
            "evaluations": tot["runs"] + tot["resched"] + (rel["runs"] if rel else 0),
            "distinct_nontrivial": len(hashes),
            "rule": ("every case is one simulated execution of the real driver: a seeded %s, one seeded schedule of the child processes and one fault plan; "
                     "non-trivial = at least one process was started; distinct = distinct complete event logs (every system call of the driver with arguments, every scheduling decision, every child transition), counted by 64-bit hash")
                    % ("command line from the grammar of cproc(1)" if prop == "C17" else "failure cell (shape x failing stage x failure mode) with its command line"),
            "samples": samples[:3],
            "exhaustive": False,
            "simulated_runs": tot["runs"],
            "runs_per_triple": per_triple,
            "reschedule_runs": tot["resched"],
            "simulated_steps": tot["steps"],
            "processes_spawned": tot["spawns"],
            "runs_per_hour": int(tot["runs"] / max(wall, 0.001) * 3600),
            "seeds": "VERIF_SEED=%d, run i uses splitmix64(VERIF_SEED, property, i); indices 0..%d per triple" % (seed, count - 1),
            "fault_kinds_configured": maps["configured"],
            "fault_kinds_fired": maps["fired"],
            "probes_hit": maps["probes"],
            "abstract_states": len(absstates),
            "abstract_state_measure": "(per child: tool kind x {starting, running, blocked-read, blocked-write, signal pending, zombie ok/failed/killed}) x driver phase {spawning, waiting, post-failure, linking} x failure-seen",
            "driver_exit_status_histogram": maps["status"],
            "known_finding_matches": maps["known"],
            "violation_classes": maps["verdicts"],
            "classes_of_other_driver_property_seen": maps["other_property_classes"],
            "determinism_gate": {"runs_compared": compared, "mismatches": len(mism), "worker_counts": [nw, 2]},
            "components": {"real": ["driver.c", "util.c (from /repo working tree, 3 configure-generated config.h)"],
                           "stub": ["kernel: posix_spawnp, posix_spawn_file_actions_*, pipe, fcntl, close, wait, waitpid (WUNTRACED), kill, mkstemp, unlink, access, readlink, exit, atexit, malloc/realloc/strdup (faulted in the relaxed configuration only)", "tools: cpp, cproc-qbe, qbe, as, ld as state machines (option grammar, -o, operand or stdin, failure plans, stop/continue)"]},
        }
        if prop == "C18":
            cells = maps["cells"]
            cov["cells_total"] = info["c18_cells"]
            cov["cells_covered"] = len(cells)
            cov["cells_min_runs"] = min(cells.values()) if cells else 0
            cov["cells_with_fault_fired"] = len(maps["cells_fired"])
            never = sorted(c for c in cells if c not in maps["cells_fired"] and "mode=none" not in c)
            cov["cells_fault_never_fired"] = never[:20]
            if rel:
                cov["relaxed_configuration"] = {"runs": rel["runs"], "fired": rel.get("fired", {}), "probes": rel.get("probes", {}),
                                                "note": "driver's own resource exhaustion (mkstemp/malloc failing): non-deciding, reported as reach only"}
            stuck = [p for p in ("wait_returned_unknown_pid", "tool_already_zombie_when_killed", "failure_reaped_last_no_kill_needed",
                                 "spawn_failed_with_earlier_stages_running", "upstream_blocked_on_full_pipe_when_killed", "two_tools_failed_in_one_pipeline")
                     if not maps["probes"].get(p)]
            cov["probes_stuck_at_zero"] = stuck
        vc.write_evidence(prop, tier, "exploration", cov, ASSUME, wall, violations)
        print("%s %s: %d simulated runs (%d distinct event logs, %d abstract states) in %.1fs, %d violation(s)" % (prop, tier, cov["evaluations"], len(hashes), len(absstates), wall, violations))
        if maps["verdicts"] and rc == 0:
            rc = 1
        return rc
    finally:
        shutil.rmtree(work, ignore_errors=True)
