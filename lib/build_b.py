"""Build of simulator B: every source of cproc-qbe (list read from /repo/Makefile) compiled in
place with -Dmain=cproc_qbe_main -finstrument-functions and linked against the simulated C library."""
import os
import re
import shutil

import build
from build import BUILD, VERIF, HarnessError, Lock, file_hash, nm_undefined, par, prune, sh

B_WRAP = ["malloc", "realloc", "free", "calloc", "fopen", "freopen", "exit", "abort", "__assert_fail",
          "getenv", "setlocale", "time", "clock_gettime", "rand", "random", "getpid",
          "atexit", "fileno", "read", "write", "isatty", "remove", "unlink", "rename", "open", "close", "lseek", "fstat", "stat",
          "fdopen", "dup", "_exit", "_Exit", "ftruncate", "getrlimit", "getcwd", "umask", "gettimeofday", "clock", "getuid", "getppid", "srand", "srandom", "sysconf"]
B_PURE = {"fclose", "getc", "ungetc", "ferror", "fflush", "stdin", "fputc", "fputs", "fwrite", "printf", "putc", "putchar",
          "puts", "stdout", "fprintf", "vfprintf", "perror", "stderr", "memcmp", "memcpy", "memset", "memmove", "strchr",
          "strcmp", "strlen", "strpbrk", "strrchr", "strncmp", "strcpy", "strncpy", "strcat", "strstr", "strspn", "strcspn",
          "snprintf", "sprintf", "vsnprintf", "strtod", "strtoull", "strtoul", "strtol", "strtoll", "strtold", "strtof",
          "tolower", "toupper", "__ctype_b_loc", "__ctype_tolower_loc", "__ctype_toupper_loc", "__errno_location",
          "_GLOBAL_OFFSET_TABLE_", "bcmp", "__stack_chk_fail", "__cyg_profile_func_enter", "__cyg_profile_func_exit",
          "_IO_getc", "_IO_putc", "__uflow", "__overflow", "__isoc99_sscanf", "fgetc", "putc_unlocked", "getc_unlocked",
          "__printf_chk", "__fprintf_chk", "__vfprintf_chk", "__snprintf_chk", "__memcpy_chk", "__memset_chk", "__strcpy_chk",
          "__isoc23_strtoull", "__isoc23_strtoul", "__isoc23_strtol", "__isoc23_strtoll", "memchr", "strnlen", "localtime", "gmtime", "strftime", "mktime", "difftime", "ctime", "asctime", "basename", "dirname", "mbrtowc", "mbstowcs", "wcwidth", "iswprint", "isgraph", "ispunct", "iscntrl", "isupper", "islower", "isblank", "strerror", "strcoll", "strxfrm", "localeconv", "nl_langinfo", "__ctype_get_mb_cur_max", "putc_unlocked", "fputc_unlocked", "fwrite_unlocked", "flockfile", "funlockfile", "getchar", "fgetc", "fgets", "fread", "qsort", "bsearch", "abs", "labs", "llabs", "strdup_never", "fseek", "fseeko", "ftell", "ftello", "rewind", "fgetpos", "fsetpos", "feof", "clearerr", "fileno", "setvbuf", "setbuf", "fread", "fgets", "fscanf", "isalnum", "isdigit", "isalpha", "isprint", "isspace", "isxdigit"}

SAN = ["-fsanitize=address,undefined", "-fno-sanitize=pointer-overflow", "-fno-sanitize-recover=all", "-fno-omit-frame-pointer"]


def comma_locale():
    """A locale whose decimal point is ',' compiled with localedef (none is installed here): the simulated
    setlocale(LC_ALL, "") may select it, as a user's environment would.  Returns its LOCPATH or None."""
    top = os.path.join(BUILD, "locale-v1")
    if os.path.exists(os.path.join(top, "xx_XX", "LC_NUMERIC")):
        return top
    ld = shutil.which("localedef")
    if not ld:
        return None
    with Lock("locale"):
        if os.path.exists(os.path.join(top, "xx_XX", "LC_NUMERIC")):
            return top
        shutil.rmtree(top, ignore_errors=True)
        os.makedirs(top)
        with open(os.path.join(top, "ascii.cm"), "w") as f:
            f.write("<code_set_name> ANSI_X3.4-1968\n<comment_char> %\n<escape_char> /\n<mb_cur_min> 1\n<mb_cur_max> 1\nCHARMAP\n")
            for i in range(128):
                f.write("<U%04X> /x%02x c%d\n" % (i, i, i))
            f.write("END CHARMAP\n")
        with open(os.path.join(top, "xx_XX.src"), "w") as f:
            f.write('LC_NUMERIC\ndecimal_point "<U002C>"\nthousands_sep ""\ngrouping -1\nEND LC_NUMERIC\n')
        import subprocess
        subprocess.run([ld, "-c", "-f", os.path.join(top, "ascii.cm"), "-i", os.path.join(top, "xx_XX.src"), os.path.join(top, "xx_XX")], stdout=subprocess.DEVNULL, stderr=subprocess.DEVNULL)
        return top if os.path.exists(os.path.join(top, "xx_XX", "LC_NUMERIC")) else None


def repo_sources():
    mk = open(os.path.join(build.REPO, "Makefile")).read()
    m = re.search(r"^SRC=\\\n((?:\t.*\\?\n)+)", mk, re.M)
    if not m:
        raise HarnessError("cannot find SRC= in /repo/Makefile")
    srcs = []
    for ln in m.group(1).splitlines():
        w = ln.strip().rstrip("\\").strip()
        if w:
            srcs.append(w.replace("$(BACKEND)", "qbe"))
    return srcs


def build_simB(san=False):
    srcs = repo_sources()
    hs = [os.path.join(VERIF, "simB", f) for f in ("harness.cpp", "main.cpp", "simb.hpp")] + [os.path.join(VERIF, "common", "common.hpp")]
    rs = [os.path.join(build.REPO, f) for f in srcs + ["cc.h", "util.h", "utf.h", "ops.h", "arg.h", "Makefile"]]
    key = file_hash(hs + rs, "simB-v1" + ("-san" if san else ""))
    tag = "simB%s-%s" % ("san" if san else "", key)
    top = os.path.join(BUILD, tag)
    exe = os.path.join(top, "simB")
    with Lock("simB" + ("san" if san else "")):
        if os.path.exists(exe):
            os.utime(top)
            return exe
        shutil.rmtree(top, ignore_errors=True)
        os.makedirs(top)
        cc = ["clang"] + SAN if san else ["cc"]
        cxx = ["clang++"] + SAN + ["-DSIMB_SANITIZED"] if san else ["g++"]
        cmds = []
        objs = []
        for s in srcs:
            o = os.path.join(top, s.replace(".c", ".o"))
            objs.append(o)
            cmds.append((cc + ["-std=c99", "-O1", "-g", "-w", "-Dmain=cproc_qbe_main", "-finstrument-functions", "-c", os.path.join(build.REPO, s), "-o", o], top))
        for f in ("harness", "main"):
            cmds.append((cxx + ["-std=c++17", "-O1", "-g", "-Wall", "-Wno-unused-function", "-Wno-unused-variable", "-c", os.path.join(VERIF, "simB", f + ".cpp"), "-o", os.path.join(top, "h_" + f + ".o")], top))
        par(cmds)
        und = nm_undefined(objs)
        und = {s for s in und if not re.match(r"__(asan|ubsan|sanitizer|msan)", s)}
        bad = sorted(s for s in und if (s not in B_WRAP or (san and s in ("_exit", "getrlimit", "sysconf"))) and s not in B_PURE)
        if bad:
            raise HarnessError("symbol audit (simulator B): cproc-qbe imports %s, which the simulated C library does not model" % ", ".join(bad))
        # the sanitizer runtime is linked into the executable and calls these itself: leave them alone there
        wrap = [s for s in B_WRAP if not (san and s in ("_exit", "getrlimit", "sysconf"))]
        sh(cxx + ["-o", exe, os.path.join(top, "h_harness.o"), os.path.join(top, "h_main.o")] + objs + ["-Wl," + ",".join("--wrap=" + s for s in wrap)], cwd=top)
        prune("simBsan-" if san else "simB-", 3)
        return exe


if __name__ == "__main__":
    import sys
    print(build_simB("--san" in sys.argv))
