"""Shared helpers of the check runner: known findings, evidence files, worker pools."""
import json
import os
import re
import subprocess
import sys
import time

VERIF = os.path.dirname(os.path.dirname(os.path.abspath(__file__)))
KNOWN_FILE = os.path.join(VERIF, "KNOWN_FINDINGS.txt")
EVIDENCE = os.environ.get("VERIF_EVIDENCE_DIR") or os.path.join(VERIF, "evidence")
REPLAYS = os.environ.get("VERIF_REPLAY_DIR") or os.path.join(VERIF, "replays")


def seed():
    try:
        return int(os.environ.get("VERIF_SEED", "1"), 0)
    except ValueError:
        return 1


def parse_known():
    """-> list of dicts {status, property, id, repro, text}; the file is never written at run time"""
    out = []
    try:
        lines = open(KNOWN_FILE).read().splitlines()
    except OSError:
        return out
    for ln in lines:
        ln = ln.strip()
        if not ln or ln.startswith("#"):
            continue
        m = re.match(r"(open|fixed):\s+property=(\S+)\s+(.*)$", ln)
        if not m:
            continue
        d = {"status": m.group(1), "property": m.group(2), "id": None, "repro": None, "sig": None}
        rest = m.group(3)
        while True:
            m2 = re.match(r"(id|repro|sig)=(\S+)\s*(.*)$", rest)
            if not m2:
                break
            d[m2.group(1)] = m2.group(2)
            rest = m2.group(3)
        d["text"] = rest
        out.append(d)
    return out


def open_findings(prop):
    return [k for k in parse_known() if k["status"] == "open" and k["property"] == prop]


def atomic_write(path, text):
    os.makedirs(os.path.dirname(path), exist_ok=True)
    tmp = path + ".tmp%d" % os.getpid()
    with open(tmp, "w") as f:
        f.write(text)
    os.replace(tmp, path)


def write_evidence(prop, tier, level, coverage, assumptions, wall_s, violations):
    os.makedirs(EVIDENCE, exist_ok=True)
    ev = {
        "property_id": prop,
        "tier": tier,
        "seed": seed(),
        "level": level,
        "coverage": coverage,
        "assumptions": assumptions,
        "wall_s": round(wall_s, 2),
        "violations": violations,
    }
    tmp = os.path.join(EVIDENCE, prop + ".json.tmp")
    with open(tmp, "w") as f:
        json.dump(ev, f, indent=1)
        f.write("\n")
    os.replace(tmp, os.path.join(EVIDENCE, prop + ".json"))


def run_pool(cmds, echo_prefixes=("VIOLATION", "HARNESS-ERROR", "KNOWN-FINDING", "  ")):
    """Start all commands at once (each is one worker process), stream their
    stdout; returns list of (returncode, output)."""
    procs = []
    for c in cmds:
        procs.append(subprocess.Popen(c, stdout=subprocess.PIPE, stderr=subprocess.STDOUT, text=True))
    res = []
    for p in procs:
        out, _ = p.communicate()
        res.append((p.returncode, out))
    return res


def merge_counts(dst, src):
    for k, v in src.items():
        dst[k] = dst.get(k, 0) + v
