"""Checks C03 (clause), C19, C20: cproc-qbe in-process over the simulated C library (simulator B)."""
import array
import json
import os
import shutil
import subprocess
import tempfile
import time

import build
import build_b
import vcommon as vc

NCPU = os.cpu_count() or 4

# runs of seeded search (plain build / sanitized build) and which single-fault spaces are enumerated completely
BUDGET = {
    ("C20", "quick"): dict(search=160000, san=4000, det=400, spaces=[], san_spaces=["stress"], memcheck=(1, 800), xbuild=True),
    ("C20", "thorough"): dict(search=4000000, san=160000, det=5000, spaces=[], san_spaces=["stress"], memcheck=(1, 6000), xbuild=True),
    ("C03", "quick"): dict(search=80000, san=3000, det=400, spaces=["write"]),
    ("C03", "thorough"): dict(search=2000000, san=80000, det=5000, spaces=["write"], san_spaces=["write"]),
    ("C19", "quick"): dict(search=100000, san=5000, det=400, spaces=["trunc", "flip2", "alloc", "read", "stress"], san_spaces=["stress"]),
    ("C19", "thorough"): dict(search=2500000, san=150000, det=5000, spaces=["trunc", "flip", "alloc", "read", "write", "stress"], san_spaces=["trunc", "flip", "alloc", "stress"]),
}

LEVEL = {"C20": "exploration", "C03": "fault_enumeration", "C19": "fault_enumeration"}

ASSUME = [
    "all 18 source files of cproc-qbe are the real ones from /repo's working tree, compiled in place with -Dmain=cproc_qbe_main -finstrument-functions and linked with -Wl,--wrap for the allocator, stream opening and termination (imports audited with nm)",
    "glibc's stdio buffering stays real between the compiler and the simulated descriptors (fopencookie streams); behaviour specific to another libc is out of reach",
    "the workload is finite: the 170 corpus files (own mode and target, plus other targets and -E), the feature snippets of simB/features, cproc's own sources preprocessed with the system cpp (sampled), and a parameterised stress family; stream corruption is one truncation or one flipped bit of a corpus or feature file",
    "successful short writes are not modelled (stdio absorbs them); EPIPE is delivered as an error return, not as SIGPIPE",
]

SPACE_DESC = {
    "trunc": "premature EOF at every byte offset of every corpus file",
    "flip": "one flipped bit at every bit position of every corpus file",
    "flip2": "one flipped bit at two of the eight bit positions (chosen by the seed) of every byte of every corpus and feature file; the thorough tier flips all eight",
    "alloc": "the k-th allocation call returns NULL, for every k up to the number of allocations of the fault-free run, for every corpus file",
    "read": "the k-th read of the input fails with EIO, for every k of the fault-free run, for every corpus file",
    "stress": "every (family, size knob) pair of the stress family once, fault-free, including the largest knobs (10^5-byte tokens, 196 417 case labels in worst-case AVL order, 4097 names per scope) and the operator/type matrix (59 forms x 30 x 30 operand type categories; one sixth of it per quick run, all of it in the thorough tier)",
    "memcheck": "every corpus and feature file in its own mode and with -E (or another target), every preprocessed source of cproc itself and the smallest member of every stress family, each once under valgrind's memcheck with the simulated allocator's blocks marked undefined and every output byte and the exit status checked for definedness",
    "xbuild": "every corpus and feature file in its own mode and with -E (or another target), every preprocessed source of cproc itself and the smallest member of every stress family, under the null plan, once in the gcc-built and once in the clang-built (ASan+UBSan) worker: status and output bytes must be the same (C20: reference-built vs otherwise-built binary)",
    "write": "the k-th write to the output fails (ENOSPC), for every k of the fault-free run under 4 buffer modes, transient and persistent, accepting 0 / 1 / all-but-one bytes, for every corpus file",
}


def own_sources():
    """cproc's own sources, preprocessed with the system cpp and the flags the driver would pass:
    a realistic, large workload (C19 and C03 name it in their quantifiers).  Cached by content."""
    srcs = sorted(f for f in os.listdir(build.REPO) if f.endswith(".c"))
    paths = [os.path.join(build.REPO, f) for f in srcs] + [os.path.join(build.REPO, f) for f in ("cc.h", "util.h", "utf.h", "ops.h", "arg.h", "config.h")]
    key = build.file_hash(paths, "own-v1")
    d = os.path.join(build.BUILD, "own-" + key)
    with build.Lock("own"):
        if os.path.isdir(d) and os.listdir(d):
            os.utime(d)
            return d
        os.makedirs(d, exist_ok=True)
        flags = ["-P", "-U", "__GNUC__", "-U", "__GNUC_MINOR__", "-D", "__STDC_NO_ATOMICS__", "-D", "__STDC_NO_COMPLEX__", "-U", "__SIZEOF_INT128__", "-U", "__PIC__", "-D", "__extension__="]
        for f in srcs:
            out = os.path.join(d, f[:-2] + ".i")
            r = subprocess.run(["cpp"] + flags + [os.path.join(build.REPO, f)], stdout=open(out, "w"), stderr=subprocess.DEVNULL)
            if r.returncode != 0 or os.path.getsize(out) == 0:
                os.unlink(out)
        build.prune("own-", 3)
        return d


FEATURES = os.path.join(vc.VERIF, "simB", "features")


def known_sig_file(prop, work):
    sigs = [k["sig"].replace("~", " ") for k in vc.open_findings(prop) if k["sig"]]
    path = os.path.join(work, "known-sigs.txt")
    with open(path, "w") as f:
        for s in sigs:
            f.write(s + "\n")
    return path, sigs


def memcheck_prefix(work):
    """command prefix that starts a simulator-B worker under valgrind's memcheck; None when valgrind is missing"""
    vg = shutil.which("valgrind")
    if not vg:
        return None
    d = os.path.join(work, "vg")
    os.makedirs(d, exist_ok=True)
    pre = [vg, "-q", "--log-file=%s/vg.%%p" % d, "--leak-check=no", "--error-limit=no", "--num-callers=12"]
    sa = shutil.which("setarch")
    if sa:
        pre = [sa, "x86_64", "-R"] + pre
    return ["env", "SIMB_NOASLR_DONE=1", "SIMB_VG_LOGDIR=" + d, "SIMB_VG_PREFIX=" + " ".join(pre)] + pre


def replay(prop, path):
    try:
        j = json.load(open(path))
    except Exception as e:
        print("cannot read replay file: %s" % e)
        return 2
    san = j.get("build") == "sanitized"
    exe = build_b.build_simB(san)
    lp = build_b.comma_locale()
    if lp:
        os.environ["SIMB_LOCPATH"] = lp
    work = tempfile.mkdtemp(prefix="simB-replay-", dir=build.BUILD)
    try:
        ks, _ = known_sig_file(prop, work)
        pre = []
        if j.get("class") == "C20/output-depends-on-build":
            exe_san = build_b.build_simB(True)
            outs = []
            for ex in (exe, exe_san):
                r = subprocess.run([ex, "outcome", path, "--repo", build.REPO, "--features", FEATURES, "--own", own_sources()], stdout=subprocess.PIPE, text=True)
                outs.append(r.stdout.strip())
            print("replay: gcc-built worker: %s\n        clang-built worker: %s" % (outs[0], outs[1]))
            if outs[0] != outs[1] and outs[0].startswith("exit") and outs[1].startswith("exit"):
                print("VIOLATION property=C20 replay=%s" % path)
                return 1
            return 0
        if j.get("build") == "memcheck":
            pre = memcheck_prefix(work)
            if pre is None:
                print("valgrind is not installed: a memcheck finding cannot be replayed")
                return 2
        r = subprocess.run(pre + [exe, "replay", path, "--repo", build.REPO, "--known-sigs", ks, "--features", FEATURES, "--own", own_sources(), "--log"])
        return r.returncode
    finally:
        shutil.rmtree(work, ignore_errors=True)


def run(prop, tier):
    t0 = time.time()
    seed = vc.seed()
    b = BUDGET[(prop, tier)]
    exe = build_b.build_simB(False)
    lp = build_b.comma_locale()
    if lp:
        os.environ["SIMB_LOCPATH"] = lp  # every worker, and every replay a worker starts, inherits it
    try:
        exe_san = build_b.build_simB(True)
    except build.HarnessError as e:
        # the sanitizer runtime is linked into that executable and uses a few libc entry points itself, which therefore
        # cannot be simulated there; code that imports one of them is decided by the plain build alone
        print("NOTE sanitized build skipped: %s" % str(e).splitlines()[0])
        exe_san = None
    work = tempfile.mkdtemp(prefix="simB-%s-" % prop, dir=build.BUILD)
    os.makedirs(vc.REPLAYS, exist_ok=True)
    try:
        ks, sigs = known_sig_file(prop, work)
        common = ["--repo", build.REPO, "--known-sigs", ks, "--features", FEATURES, "--own", own_sources(), "--replay-dir", vc.REPLAYS]
        # open known findings: replay the stored reproducer, list the finding while it still reproduces
        for k in vc.open_findings(prop):
            if not k["repro"]:
                continue
            rp = os.path.join(vc.VERIF, k["repro"])
            try:
                san = json.load(open(rp)).get("build") == "sanitized"
            except Exception:
                continue
            if san and not exe_san:
                continue
            r = subprocess.run([exe_san if san else exe, "replay", rp] + common[:8], stdout=subprocess.PIPE, text=True)
            if r.returncode == 0 and "known: " in r.stdout:
                print("KNOWN-FINDING: property=%s %s [%s]" % (prop, k["text"], k["sig"].replace("~", " ")))
            elif r.returncode == 1:
                print("note: reproducer %s now fails with a signature that is not listed" % k["repro"])
        # sizes of the exhaustive spaces
        spaces = {}
        for sp in set(b.get("spaces", []) + b.get("san_spaces", [])):
            out = subprocess.run([exe, "space", "--name", sp, "--repo", build.REPO, "--features", FEATURES], stdout=subprocess.PIPE, text=True).stdout
            spaces[sp] = json.loads(out)["total"]
            if sp == "stress":
                stress_head = json.loads(out).get("handsized", 300)
        # job list: (exe, args, count) split into NCPU worker processes each
        jobs = []

        def add(kind, ex, extra, total, nw, sd, first=0, step=1):
            """indices first, first+step, ... below total, dealt round-robin to nw workers"""
            n = max(0, (total - first + step - 1) // step)
            for w in range(nw):
                per = (n - w + nw - 1) // nw
                if per <= 0:
                    continue
                out = os.path.join(work, "%s-%d-%d.json" % (kind, first, w))
                jobs.append((kind, out, [ex, "run", "--prop", prop, "--seed", str(sd), "--start", str(first + w * step), "--stride", str(nw * step), "--count", str(per), "--out", out] + extra + common))

        def add_space(prefix, ex, sp):
            if sp == "stress" and tier == "quick":
                # the hand-sized families completely, the 53 100-entry operator/type matrix one sixth per run (offset by seed)
                head = min(stress_head, spaces[sp])
                add(prefix + sp, ex, ["--space", sp], head, NCPU, seed)
                add(prefix + sp, ex, ["--space", sp], spaces[sp], NCPU, seed, first=head + seed % 6, step=6)
            else:
                add(prefix + sp, ex, ["--space", sp], spaces[sp], NCPU, seed)
        nsan = max(2, NCPU // 4)
        nplain = max(1, NCPU - nsan)
        det = min(b["det"], b["search"])
        add("search", exe, ["--hashes", "@OUT@.idx", "--hashes-below", str(det)], b["search"], nplain, seed)
        if exe_san:
            add("san", exe_san, [], b["san"], nsan, seed + 104729)
        if b.get("xbuild") and exe_san:
            out = subprocess.run([exe, "space", "--name", "xbuild", "--repo", build.REPO, "--features", FEATURES, "--own", own_sources()], stdout=subprocess.PIPE, text=True).stdout
            spaces["xbuild"] = json.loads(out)["total"]
            add("xbuild-plain", exe, ["--space", "xbuild", "--sinks", "@OUT@.sinks"], spaces["xbuild"], max(2, NCPU // 2), seed)
            add("xbuild-san", exe_san, ["--space", "xbuild", "--sinks", "@OUT@.sinks"], spaces["xbuild"], max(2, NCPU // 2), seed)
        # C20's last clause under memcheck: the same worker, started under valgrind
        vg = memcheck_prefix(work) if b.get("memcheck") else None
        if b.get("memcheck") and not vg:
            print("NOTE valgrind not found: the memcheck portion of %s is skipped" % prop)
        if vg:
            step, nsearch = b["memcheck"]
            out = subprocess.run([exe, "space", "--name", "memcheck", "--repo", build.REPO, "--features", FEATURES, "--own", own_sources()], stdout=subprocess.PIPE, text=True).stdout
            spaces["memcheck"] = json.loads(out)["total"]
            n0 = len(jobs)
            add("memcheck-space", exe, ["--space", "memcheck"], spaces["memcheck"], NCPU, seed, first=seed % step, step=step)
            if nsearch:
                add("memcheck-search", exe, [], nsearch, NCPU, seed + 15485863)
            for i in range(n0, len(jobs)):
                k, o, c = jobs[i]
                jobs[i] = (k, o, vg + c + ["--max-violations", "2"])
        jobs2 = []
        jobs_bak = jobs
        jobs = jobs2
        for sp in b.get("spaces", []):
            add_space("space-", exe, sp)
        for sp in (b.get("san_spaces", []) if exe_san else []):
            add_space("sanspace-", exe_san, sp)
        # determinism gate: the first `det` search indices again at another worker count
        gate = []
        for w in range(3):
            out = os.path.join(work, "gate-%d.json" % w)
            gate.append(("gate", out, [exe, "run", "--prop", prop, "--seed", str(seed), "--start", str(w), "--stride", "3", "--count", str((det - w + 2) // 3),
                                      "--out", out, "--hashes", out + ".idx", "--max-violations", "0"] + common[:8] + ["--replay-dir", os.path.join(work, "gate-replays")]))
        # one pool for everything: the long sanitized workers overlap with the enumerated spaces
        res_all = run_jobs(jobs_bak + jobs2 + gate)
        res_a = res_all[:len(jobs_bak)]
        res_b = res_all[len(jobs_bak):]
        jobs = jobs_bak + jobs2

        rc = 0
        violations = 0
        for (kind, out, cmd), (code, text) in list(zip(jobs_bak, res_a)) + list(zip(jobs2 + gate, res_b)):
            if kind == "gate":
                continue
            for ln in text.splitlines():
                print(ln)
            violations += text.count("VIOLATION property=")
            if code == 1:
                rc = max(rc, 1)
            elif code != 0:
                print("HARNESS-ERROR worker exit %d: %s\n%s" % (code, " ".join(cmd), text[-500:]))
                rc = 2

        def load_idx(paths):
            m = {}
            for p in paths:
                if os.path.exists(p):
                    for ln in open(p):
                        a, h = ln.split()
                        m[int(a)] = h
            return m
        first = load_idx([o + ".idx" for (k, o, c) in jobs if k == "search"])
        second = load_idx([o + ".idx" for (k, o, c) in gate])
        compared = sum(1 for i in second if i in first)
        mism = [i for i in second if i in first and first[i] != second[i]]
        if mism:
            print("HARNESS-ERROR determinism gate: %d of %d runs differed when repeated in other processes at another worker count (first index %d)" % (len(mism), compared, mism[0]))
            rc = 2
        if compared < det * 0.9:
            print("HARNESS-ERROR determinism gate compared only %d of %d runs" % (compared, det))
            rc = 2

        # cross-build comparison (C20): same status and same output bytes from the gcc-built and the clang-built worker
        xb = None
        if "xbuild" in spaces:
            def load_sinks(kind):
                m = {}
                for (k, o, c) in jobs:
                    if k == kind and os.path.exists(o + ".sinks"):
                        for ln in open(o + ".sinks"):
                            f = ln.split()
                            m[int(f[0])] = tuple(f[1:])
                return m
            sa, sb = load_sinks("xbuild-plain"), load_sinks("xbuild-san")
            both = [i for i in sa if i in sb and sa[i][0] == "exit" and sb[i][0] == "exit"]
            diff = [i for i in both if sa[i] != sb[i]]
            xb = {"compared": len(both), "different": 0, "builds": ["gcc -O1", "clang -O1 -fsanitize=address,undefined"]}
            for i in sorted(diff)[:3]:
                pj = subprocess.run([exe, "plan", "--space", "xbuild", "--index", str(i), "--seed", str(seed), "--prop", "C20"] + common[:8], stdout=subprocess.PIPE, text=True).stdout
                try:
                    plan = json.loads(pj)
                except Exception:
                    print("HARNESS-ERROR cannot obtain the plan of xbuild index %d" % i)
                    rc = 2
                    continue
                rp = os.path.join(vc.REPLAYS, "C20-xbuild-%d.json" % i)
                vc.atomic_write(rp, json.dumps({"property": "C20", "class": "C20/output-depends-on-build", "signature": "output-depends-on-build", "build": "both",
                                                "detail": "gcc-built worker: %s; clang-built worker: %s" % (" ".join(sa[i]), " ".join(sb[i])), "plan": plan}, indent=1) + "\n")
                # gate: a fresh pair of processes must disagree again
                outs = []
                for ex in (exe, exe_san):
                    r = subprocess.run([ex, "outcome", rp] + common[:8], stdout=subprocess.PIPE, text=True)
                    outs.append(r.stdout.strip())
                if outs[0] == outs[1]:
                    print("HARNESS-ERROR cross-build difference at index %d did not reproduce in fresh processes" % i)
                    rc = 2
                    continue
                xb["different"] += 1
                violations += 1
                rc = max(rc, 1)
                print("VIOLATION property=C20 replay=%s\n  class: C20/output-depends-on-build\n  signature: output-depends-on-build\n  detail: the same input and options give different status/output from two builds of the same source (gcc: %s; clang: %s)\n  input: %s" % (rp, outs[0], outs[1], plan["files"][0].get("source", plan["files"][0]["name"])))
            if len(diff) > 3:
                xb["different"] = len(diff)

        # merge statistics
        tot = {}
        maps = {k: {} for k in ("configured", "fired", "outcomes", "verdicts", "known", "sites", "axes", "workloads", "unreproducible_sanitized")}
        per_kind = {}
        functions = set()
        hashes = set()
        samples = []
        for (kind, out, cmd) in jobs:
            if not os.path.exists(out):
                continue
            j = json.load(open(out))
            for k in ("runs", "steps", "allocs", "reads", "writes", "realloc_moved", "lifo_reused", "dropped_bytes"):
                tot[k] = tot.get(k, 0) + j.get(k, 0)
            tot["maxdepth"] = max(tot.get("maxdepth", 0), j.get("maxdepth", 0))
            for k in maps:
                vc.merge_counts(maps[k], j.get(k, {}))
            base = kind.split("-")[0] + ("-" + kind.split("-", 1)[1] if "-" in kind else "")
            per_kind[base] = per_kind.get(base, 0) + j.get("runs", 0)
            functions.update(j.get("functions", []))
            if len(samples) < 3:
                samples.extend(j.get("samples", [])[:1])
            hp = out + ".hashes"
            if os.path.exists(hp):
                a = array.array("Q")
                with open(hp, "rb") as f:
                    a.frombytes(f.read())
                hashes.update(a)
        wall = time.time() - t0
        sites = maps["sites"]
        exhaustive_sub = {}
        for sp in b.get("spaces", []):
            exhaustive_sub[sp] = {"size": spaces[sp], "runs": per_kind.get("space-" + sp, 0), "complete": per_kind.get("space-" + sp, 0) >= spaces[sp], "what": SPACE_DESC[sp], "build": "plain"}
        if "xbuild" in spaces:
            exhaustive_sub["xbuild"] = {"size": spaces["xbuild"], "runs": per_kind.get("xbuild-plain", 0) + per_kind.get("xbuild-san", 0), "complete": per_kind.get("xbuild-plain", 0) >= spaces["xbuild"] and per_kind.get("xbuild-san", 0) >= spaces["xbuild"], "what": SPACE_DESC["xbuild"], "build": "plain and ASan+UBSan"}
        if "memcheck" in spaces:
            step = b["memcheck"][0]
            exhaustive_sub["memcheck"] = {"size": spaces["memcheck"], "runs": per_kind.get("memcheck-space", 0), "complete": step == 1 and per_kind.get("memcheck-space", 0) >= spaces["memcheck"], "what": SPACE_DESC["memcheck"], "build": "plain, under valgrind memcheck"}
        for sp in b.get("san_spaces", []):
            exhaustive_sub[sp + " (sanitized)"] = {"size": spaces[sp], "runs": per_kind.get("sanspace-" + sp, 0), "complete": per_kind.get("sanspace-" + sp, 0) >= spaces[sp], "what": SPACE_DESC[sp], "build": "ASan+UBSan"}
        cov = {
            "evaluations": tot.get("runs", 0),
            "distinct_nontrivial": len(hashes),
            "rule": "every case is one simulated execution of the real cproc-qbe code on one input under one plan (allocator schedule, stream schedule, invocation axes, fault list); every run compiles a real input, so every run is non-trivial; distinct = distinct event logs (hash over every allocator/stream/termination call with sizes, placements and the step count at which it happened)",
            "samples": samples[:3],
            "exhaustive": False,
            "exhaustively_enumerated_subspaces": exhaustive_sub,
            "runs_by_configuration": per_kind,
            "slowest_worker_seconds_by_configuration": dict(JOB_SECONDS),
            "simulated_steps": tot.get("steps", 0),
            "simulated_time_measure": "instrumented function entries of the real code (-finstrument-functions)",
            "runs_per_hour": int(tot.get("runs", 0) / max(wall, 0.001) * 3600),
            "seeds": "VERIF_SEED=%d; run i uses splitmix64(VERIF_SEED, property, i)" % seed,
            "allocator_calls": tot.get("allocs", 0), "read_calls": tot.get("reads", 0), "write_calls": tot.get("writes", 0),
            "fault_kinds_configured": maps["configured"],
            "fault_kinds_fired": maps["fired"],
            "distinct_fault_sites": len(sites),
            "fault_sites_sample": dict(sorted(sites.items(), key=lambda kv: -kv[1])[:25]),
            "schedule_axes_exercised": maps["axes"],
            "workloads": maps["workloads"],
            "outcomes": maps["outcomes"],
            "probes": {"realloc_moved_a_live_block": tot.get("realloc_moved", 0), "freed_block_reused_lifo": tot.get("lifo_reused", 0), "max_call_depth": tot.get("maxdepth", 0), "output_bytes_dropped_by_write_faults": tot.get("dropped_bytes", 0)},
            "functions_of_real_code_entered": len(functions),
            "known_finding_matches": maps["known"],
            "violation_classes": maps["verdicts"],
            "sanitized_only_unreproducible": maps["unreproducible_sanitized"],
            "memcheck": {"runs_under_valgrind_memcheck": per_kind.get("memcheck-space", 0) + per_kind.get("memcheck-search", 0),
                         "oracle": "blocks handed out by the simulated malloc/realloc are marked undefined, every byte reaching the simulated output descriptors and the exit status are checked for definedness, and any memcheck error (branch or address depending on an undefined value) inside the run is a C20/uninitialised-memory violation; these workers decide nothing else",
                         "violations": sum(v for k, v in maps["verdicts"].items() if k.startswith("C20/uninitialised-memory"))} if "memcheck" in spaces else None,
            "cross_build_comparison": xb,
            "determinism_gate": {"runs_compared": compared, "mismatches": len(mism), "worker_counts": [nplain, 3]},
            "components": {"real": ["attr.c decl.c eval.c expr.c init.c main.c map.c pp.c scan.c scope.c stmt.c targ.c token.c tree.c type.c utf.c util.c qbe.c", "glibc stdio buffering"],
                           "stub": ["malloc/realloc/free (seeded arena allocator with canaries, or ASan's allocator in the sanitized build)", "fopen/freopen/stdin/stdout/stderr (fopencookie streams)", "exit/abort/__assert_fail", "getenv/time/rand/getpid/setlocale tripwires"]},
        }
        vc.write_evidence(prop, tier, LEVEL[prop], cov, ASSUME, wall, violations)
        print("%s %s: %d simulated runs (%d distinct event logs, %d fault sites) in %.1fs, %d violation(s)" % (prop, tier, cov["evaluations"], len(hashes), len(sites), wall, violations))
        if maps["verdicts"] and rc == 0:
            rc = 1
        return rc
    finally:
        shutil.rmtree(work, ignore_errors=True)


JOB_SECONDS = {}


def run_jobs(jobs):
    """run at most NCPU worker processes at a time; returns [(rc, output)] in order"""
    res = [None] * len(jobs)
    running = {}
    nxt = 0
    while nxt < len(jobs) or running:
        while nxt < len(jobs) and len(running) < NCPU:
            kind, out, cmd = jobs[nxt]
            cmd = [c.replace("@OUT@", out) for c in cmd]
            lf = open(out + ".log", "w+")
            p = subprocess.Popen(cmd, stdout=lf, stderr=subprocess.STDOUT, text=True)
            p.logfile = lf
            p.t0 = time.time()
            p.kind = kind
            running[nxt] = p
            nxt += 1
        done = [i for i, p in running.items() if p.poll() is not None]
        if not done:
            time.sleep(0.02)
            continue
        for i in done:
            p = running.pop(i)
            p.logfile.seek(0)
            out = p.logfile.read()
            p.logfile.close()
            JOB_SECONDS[p.kind] = max(JOB_SECONDS.get(p.kind, 0), round(time.time() - p.t0, 1))
            res[i] = (p.returncode, out)
    return res
