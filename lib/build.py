"""Content-addressed builds of the two simulators from /repo's working tree.

Nothing in /repo is modified or copied: sources are compiled in place (or
through symlinks, for the per-triple config.h of the driver)."""
import concurrent.futures as cf
import fcntl
import hashlib
import os
import shutil
import subprocess
import sys
import time

VERIF = os.path.dirname(os.path.dirname(os.path.abspath(__file__)))
BUILD = os.path.join(VERIF, "build")
REPO = os.environ.get("CPROC_REPO", "/repo")

TRIPLES = ["x86_64-linux-gnu", "aarch64-linux-musl", "riscv64-linux-gnu"]

A_WRAP = ["posix_spawnp", "posix_spawn_file_actions_init", "posix_spawn_file_actions_adddup2",
          "posix_spawn_file_actions_destroy", "pipe", "fcntl", "close", "wait", "waitpid", "kill",
          "mkstemp", "unlink", "readlink", "access", "_exit", "sigprocmask", "pthread_sigmask", "sigaction", "signal", "__sysv_signal", "exit", "atexit", "malloc", "realloc", "strdup",
          "posix_spawn", "lstat", "stat", "getenv", "nanosleep", "clock_nanosleep", "usleep", "sleep", "getauxval", "alarm"]
# symbols the driver may import without going through the simulator
A_PURE = {"fprintf", "fputc", "vfprintf", "perror", "stderr", "strerror", "strsignal", "memcmp", "memcpy",
          "strchr", "strcmp", "strcpy", "strlen", "strncmp", "strrchr", "__errno_location", "environ",
          "__assert_fail", "__stack_chk_fail", "_GLOBAL_OFFSET_TABLE_", "memset", "memmove", "fwrite", "fputs",
          "puts", "putc", "snprintf", "strnlen", "__memcpy_chk", "__fprintf_chk", "__vfprintf_chk", "abort",
          "__strcpy_chk", "strncpy", "strcat", "stpcpy", "free", "strdup",
          # pure string/character/number functions of libc: no system interface behind them
          "strtok", "strtok_r", "strsep", "strstr", "strspn", "strcspn", "strpbrk", "strncat", "strcasecmp", "strncasecmp",
          "memchr", "memrchr", "strtol", "strtoul", "strtoll", "strtoull", "atoi", "atol", "isalpha", "isdigit", "isalnum",
          "isspace", "isupper", "islower", "tolower", "toupper", "__ctype_b_loc", "__ctype_tolower_loc", "__ctype_toupper_loc",
          "sprintf", "vsnprintf", "vsprintf", "__sprintf_chk", "__snprintf_chk", "__vsnprintf_chk", "qsort", "bsearch", "abs",
          "fflush", "stdout", "printf", "__printf_chk", "putchar", "fputs", "bcmp", "calloc", "sigemptyset", "sigaddset", "sigfillset", "sigdelset", "sigismember",
          # spawn attribute objects are plain data; the simulated posix_spawnp reads them back with the get* accessors
          "posix_spawnattr_init", "posix_spawnattr_destroy", "posix_spawnattr_setflags", "posix_spawnattr_setsigdefault", "posix_spawnattr_setsigmask", "posix_spawnattr_setpgroup"}


class HarnessError(Exception):
    pass


def sh(cmd, cwd=None, env=None):
    r = subprocess.run(cmd, cwd=cwd, env=env, stdout=subprocess.PIPE, stderr=subprocess.STDOUT, text=True)
    if r.returncode != 0:
        raise HarnessError("command failed (%d): %s\n%s" % (r.returncode, " ".join(cmd), r.stdout))
    return r.stdout


def file_hash(paths, extra=""):
    h = hashlib.sha256(extra.encode())
    for p in sorted(paths):
        h.update(p.encode())
        try:
            with open(p, "rb") as f:
                h.update(f.read())
        except OSError:
            h.update(b"<missing>")
    return h.hexdigest()[:16]


def par(cmds):
    """run [(argv, cwd)] in parallel, fail on first error"""
    with cf.ThreadPoolExecutor(max_workers=16) as ex:
        futs = [ex.submit(sh, c, cwd) for c, cwd in cmds]
        for f in futs:
            f.result()


class Lock:
    def __init__(self, name):
        os.makedirs(BUILD, exist_ok=True)
        self.path = os.path.join(BUILD, name + ".lock")

    def __enter__(self):
        self.f = open(self.path, "w")
        fcntl.flock(self.f, fcntl.LOCK_EX)
        return self

    def __exit__(self, *a):
        fcntl.flock(self.f, fcntl.LOCK_UN)
        self.f.close()


def prune(prefix, keep):
    """remove old build directories with the given prefix, keeping the newest `keep`"""
    try:
        ds = [os.path.join(BUILD, d) for d in os.listdir(BUILD) if d.startswith(prefix) and os.path.isdir(os.path.join(BUILD, d))]
    except OSError:
        return
    ds.sort(key=lambda d: os.path.getmtime(d), reverse=True)
    for d in ds[keep:]:
        shutil.rmtree(d, ignore_errors=True)


def nm_undefined(objs):
    """symbols the objects import from outside themselves"""
    out = sh(["nm"] + objs)
    und, defd = set(), set()
    for line in out.splitlines():
        parts = line.split()
        if len(parts) == 2 and parts[0] in ("U", "w"):
            und.add(parts[1].split("@")[0])
        elif len(parts) == 3 and parts[1] in "TDBRCVW":
            defd.add(parts[2])
    return und - defd


def build_simA(san=False):
    """returns {triple: exe path}; builds the real driver.c/util.c against the simulated kernel"""
    srcs = [os.path.join(VERIF, "simA", f) for f in ("kernel.cpp", "model.cpp", "gen.cpp", "main.cpp", "sim.hpp")]
    srcs.append(os.path.join(VERIF, "common", "common.hpp"))
    reposrc = [os.path.join(REPO, f) for f in ("driver.c", "util.c", "util.h", "configure")]
    key = file_hash(srcs + reposrc, "simA-v1-san" if san else "simA-v1")
    tag = "simA%s-%s" % ("san" if san else "", key)
    exes = {t: os.path.join(BUILD, tag, t, "simA") for t in TRIPLES}
    with Lock("simA"):
        if all(os.path.exists(e) for e in exes.values()):
            os.utime(os.path.join(BUILD, tag))
            return exes
        top = os.path.join(BUILD, tag)
        shutil.rmtree(top, ignore_errors=True)
        os.makedirs(top)
        cc = ["clang", "-fsanitize=address,undefined", "-fno-sanitize=pointer-overflow", "-fno-sanitize-recover=all", "-fno-omit-frame-pointer"] if san else ["cc"]
        cxx = ["clang++", "-fsanitize=address,undefined", "-fno-sanitize=pointer-overflow", "-fno-sanitize-recover=all", "-fno-omit-frame-pointer"] if san else ["g++"]
        cmds = []
        for t in TRIPLES:
            d = os.path.join(top, t)
            os.makedirs(d)
            for f in ("driver.c", "util.c", "util.h"):
                os.symlink(os.path.join(REPO, f), os.path.join(d, f))
            sh(["sh", os.path.join(REPO, "configure"), "--host=x86_64-linux-gnu", "--target=" + t, "--with-gcc-libdir=/simgcc"], cwd=d)
            for f in ("driver", "util"):
                cmds.append((cc + ["-std=c99", "-O1", "-g", "-w", "-Dmain=cproc_driver_main", "-c", f + ".c", "-o", f + ".o"], d))
            for f in ("kernel", "model", "gen", "main"):
                cmds.append((cxx + ["-std=c++17", "-O1", "-g", "-Wall", "-Wno-unused-function", "-I", d, "-c", os.path.join(VERIF, "simA", f + ".cpp"), "-o", f + ".o"], d))
        par(cmds)
        for t in TRIPLES:
            d = os.path.join(top, t)
            und = nm_undefined([os.path.join(d, "driver.o"), os.path.join(d, "util.o")])
            und = {s for s in und if not s.startswith("__asan") and not s.startswith("__ubsan") and not s.startswith("__sanitizer")}
            bad = sorted(s for s in und if s not in A_WRAP and s not in A_PURE)
            if bad:
                raise HarnessError("symbol audit (simulator A): the driver imports %s, which the simulated kernel does not model" % ", ".join(bad))
        links = []
        for t in TRIPLES:
            d = os.path.join(top, t)
            links.append((cxx + ["-o", "simA", "kernel.o", "model.o", "gen.o", "main.o", "driver.o", "util.o",
                                 "-Wl," + ",".join("--wrap=" + s for s in A_WRAP)], d))
        par(links)
        prune("simAsan-" if san else "simA-", 3)
        return exes


if __name__ == "__main__":
    t0 = time.time()
    try:
        if "--all" in sys.argv:
            build_simA()
            try:
                import build_b
                build_b.build_simB(False)
                build_b.build_simB(True)
            except ImportError:
                pass
        else:
            print(build_simA("--san" in sys.argv))
    except HarnessError as e:
        print("HARNESS-ERROR %s" % e)
        sys.exit(2)
    print("built in %.1fs" % (time.time() - t0))
