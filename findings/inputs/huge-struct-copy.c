void f(void) { struct S { char a[0x2000000]; } s, t; s = t; }
