void f(void) { char a[0x4000000] = {1}; }
