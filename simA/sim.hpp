// Simulator A: the real cproc driver (driver.c + util.c) over a simulated
// POSIX process/pipe/file kernel.  See DESIGN.md section 2.
#pragma once
#include "../common/common.hpp"
#include <deque>
#include <set>

namespace sa {
using namespace vf;

enum Stage { PREPROCESS = 0, COMPILE, CODEGEN, ASSEMBLE, LINK, NSTAGE };
static const char *const stage_name[] = {"preprocess", "compile", "codegen", "assemble", "link"};

enum Mode {
	M_NONE = 0,
	M_EXIT1_BEFORE_READ,
	M_EXIT1_AFTER_HALF,
	M_EXIT1_AFTER_ALL,
	M_SIGSEGV,      // at own step `param`
	M_SIGKILL,      // at global step `param`
	M_NODRAIN,      // exits 0 without reading its input (probe only, non-deciding)
	NMODE
};
static const char *const mode_name[] = {"none", "exit1_before_read", "exit1_after_half", "exit1_after_all", "sigsegv", "sigkill", "succeed_without_draining"};

struct ToolPlan {
	int kind = 0;  // Stage
	int occ = 0;   // n-th spawn of that kind in this run
	int mode = 0;
	int param = 0;
	int code = 0;  // 0: default (exit 1 / SIGSEGV+core); else exit code, or wait status word for the signal mode
};

struct StopPlan {
	int kind = 0, occ = 0;
	int at = 0;        // own step at which the tool receives SIGSTOP
	int duration = 0;  // scheduler steps until SIGCONT
};

struct Fault {
	std::string call;  // spawn pipe fcntl fa_init fa_adddup2 mkstemp alloc
	int index = 0;     // n-th call of that kind made by the driver
	int err = 0;
	bool persistent = false;  // every call from the n-th on fails (a full process table does not empty because one asks again)
};

struct Scenario {
	std::vector<std::string> argv;            // argv[0] included
	std::vector<std::pair<std::string, int>> files;  // initial files: path, unit count
	int stdin_units = 3;
	std::vector<ToolPlan> plans;
	std::vector<Fault> faults;
	std::vector<StopPlan> stops;             // a tool is stopped and later continued: a delay the driver must not mistake for an exit
	std::vector<std::string> missing_tools;   // tool names absent from PATH
	bool readlink_fail = false;
	bool stdin_closed = false;      // the driver is started without descriptor 0 (cproc ... <&-)
	bool sigchld_ignored = false;   // the driver inherits SIGCHLD = SIG_IGN: the kernel reaps children itself, wait() ends with ECHILD
	int sigterm_inherited = 0;      // 1: the driver inherits SIGTERM = SIG_IGN (trap '' TERM; cproc ...), 2: SIGTERM blocked in the inherited mask
	std::vector<std::pair<int, int>> term_immune;  // (stage, occurrence) of tools that ignore SIGTERM themselves (a wrapper script with trap '' TERM)
	int heap_fill = 0;              // contents of memory the driver gets from malloc/realloc: 0 zero, 1 0xFF, 2 0xA5 (never the worker's history)
	bool output_symlink = false;    // every output name of the command line exists beforehand as a symbolic link (out.o -> elsewhere/out.o)
	std::vector<std::string> path_decoys;  // tool names for which an earlier PATH entry holds a directory of that name
	bool stdin_stays_open = false;  // standard input is a terminal nobody types on: after stdin_units a read blocks for ever instead of seeing EOF
	int stray_exit_step = -1;                 // -1: no stray child
	int stray_status = 0;
	int pipe_cap = 2;
	int pid_base = 100;
	uint64_t sched_seed = 0;
	bool explicit_choices = false;
	std::vector<uint32_t> choices;
	// bookkeeping (not semantic)
	std::string prop;
	uint64_t origin_seed = 0;
	uint64_t origin_index = 0;
	std::string cell;

	Json to_json() const;
	static bool from_json(const Json &j, Scenario &s);
};

// ---- configuration of this build (from the generated config.h)
struct Config {
	std::string target;
	std::vector<std::string> startfiles, endfiles, cmd[NSTAGE];  // cmd[COMPILE] is empty (derived from self)
	std::string arch, qbearch;
};
const Config &config();

// ---- reference model of cproc(1) (model.cpp), the oracle of C17
struct ExpSpawn {
	int stage;
	int input;                     // index into the command line's input entries; -1 for link
	std::vector<std::string> argv; // "\x01T<i>" stands for the temporary object of input entry i
	bool stdin_driver;             // else: read end of the pipe written by the previous spawn
	bool stdout_driver;            // else: pipe to the next spawn
};
struct ExpArtefact {
	std::string path;              // "" = driver stdout, "\x01T<i>" = temporary
	int input;
	std::vector<int> stages;       // stages applied, in order
	std::string src;               // source name, "-" = driver stdin
};
struct Expect {
	bool usage = false;
	std::string why;
	std::vector<ExpSpawn> spawns;
	std::vector<ExpArtefact> arts;
	bool link = false;
	std::string link_out;
	std::vector<std::string> link_objs;  // object operands in order (path or "\x01T<i>"), libs excluded
	bool d6 = false;   // shape of known finding D6: -emit-qbe without -o (manual: stdout; driver: <base>.qbe)
};
Expect model(const Config &cfg, const std::vector<std::string> &argv, bool readlink_ok);

// ---- content algebra shared by stub tools and oracle
typedef std::vector<uint64_t> Content;
Content initial_content(const std::string &name, int units);
Content transform(int kind, const Content &in);
Content link_transform(const std::vector<Content> &objs);
static const uint64_t UNIT_HDR = 0x1111, UNIT_TRL = 0x2222;
uint64_t unit_hdr(int kind);
uint64_t unit_trl(int kind, uint64_t count);
void unit_out(int kind, uint64_t u, std::vector<uint64_t> &out);

// ---- result of one simulated run
struct SpawnEvent {
	int pid, kind, occ, step, group;
	std::vector<std::string> argv;
	int in_kind, in_pipe, out_kind, out_pipe;  // FdKind of fd 0 / fd 1
	bool ok; int err;
};

struct RunResult {
	std::string verdict;       // "" = all oracles passed; else violation class
	std::string detail;
	uint64_t log_hash = 0;
	uint64_t spawn_hash = 0;   // argv + wiring of every spawn, in order (must not depend on the schedule)
	std::string log;           // textual event log
	int status = -1;           // driver exit status
	bool hang = false;
	int steps = 0;
	int nspawn = 0;
	std::vector<uint32_t> choices;      // choices made
	std::vector<std::string> fired;     // fault kinds that fired
	std::vector<std::string> configured;
	std::vector<uint64_t> absstates;
	std::vector<std::string> probes;
	std::vector<std::string> known;     // known-finding tags matched (suppressed violations)
	std::vector<std::string> other;     // violation classes of the other driver property (not reported by this check)
	bool nontrivial = false;
};

// run the driver once under the simulator (in this process! caller forks)
RunResult simulate(const Scenario &sc);

// generators (gen.cpp)
Scenario gen_c17(uint64_t seed);
Scenario gen_c18(uint64_t seed, uint64_t index, bool relaxed);
extern const int C18_NCELLS;
std::string c18_cell_name(uint64_t index);

}  // namespace sa
