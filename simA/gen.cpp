// Scenario generators for simulator A: command lines from the grammar of
// cproc(1) (C17) and stratified failure cells (C18).
#include "sim.hpp"
#include <algorithm>
#include <cerrno>
#include <csignal>

namespace sa {

namespace {

struct TypeInfo { const char *suffix; const char *xlang; std::vector<int> stages; };
const TypeInfo TYPES[] = {
	{".c", "c", {PREPROCESS, COMPILE, CODEGEN, ASSEMBLE, LINK}},
	{".i", "cpp-output", {COMPILE, CODEGEN, ASSEMBLE, LINK}},
	{".qbe", "qbe", {CODEGEN, ASSEMBLE, LINK}},
	{".s", "assembler", {ASSEMBLE, LINK}},
	{".S", "assembler-with-cpp", {PREPROCESS, ASSEMBLE, LINK}},
	{".o", nullptr, {LINK}},
	{".h", "c-header", {PREPROCESS}},
};
enum { TY_C, TY_I, TY_QBE, TY_s, TY_S, TY_O, TY_H, NTY };

typedef std::vector<std::string> Item;  // arguments that must stay adjacent

void shuffle(std::vector<Item> &v, Rng &r) {
	for (size_t i = v.size(); i > 1; i--) std::swap(v[i - 1], v[r.below((uint32_t)i)]);
}

Item opt_val(Rng &r, const char *o, const std::string &v, bool allow_attached = true) {
	if (allow_attached && r.coin(1, 2)) return {std::string(o) + v};
	return {o, v};
}

std::vector<Item> random_options(Rng &r, int mode, int density) {
	std::vector<Item> pool;
	auto maybe = [&](int num) { return (int)r.below(100) < num * density / 10; };
	static const char *dvals[] = {"X", "Y=1", "FOO=a b", "Z=", "__x86_64__"};
	static const char *paths[] = {"inc", "/usr/include/x", "..", "a-b/c"};
	int nd = maybe(60) ? 1 + r.below(3) : 0;
	for (int i = 0; i < nd; i++) pool.push_back(opt_val(r, "-D", dvals[r.below(5)]));
	if (maybe(30)) pool.push_back(opt_val(r, "-U", dvals[r.below(2)]));
	int ni = maybe(40) ? 1 + r.below(2) : 0;
	for (int i = 0; i < ni; i++) pool.push_back(opt_val(r, "-I", paths[r.below(4)]));
	if (maybe(20)) pool.push_back({"-include", "pre.h"});
	if (maybe(10)) pool.push_back({"-isystem", paths[r.below(4)]});
	if (maybe(8)) pool.push_back({"-idirafter", paths[r.below(4)]});
	if (maybe(8)) pool.push_back({"-iquote", paths[r.below(4)]});
	if (maybe(15)) pool.push_back({r.coin(1, 2) ? "-std=c11" : "-std=gnu99"});
	if (maybe(10)) pool.push_back({"-nostdinc"});
	if (maybe(10)) pool.push_back({"-P"});
	if (maybe(10)) pool.push_back({r.coin(1, 2) ? "-MD" : "-MMD"});
	if (maybe(8)) pool.push_back({"-MF", "deps.d"});
	if (maybe(8)) pool.push_back({"-MT", "tgt"});
	if (maybe(15)) pool.push_back({r.coin(1, 2) ? "-Wp,-undef" : r.coin(1, 4) ? "-Wp,-C,,-CC" : "-Wp,-DQ=1,-C,-traditional-cpp"});
	if (maybe(15)) pool.push_back({r.coin(1, 2) ? "-Wa,--noexecstack" : r.coin(1, 4) ? "-Wa," : "-Wa,-q,--fatal-warnings,-a"});
	if (maybe(15)) pool.push_back({r.coin(1, 2) ? "-Wl,--gc-sections" : r.coin(1, 4) ? "-Wl,-z,,--as-needed" : "-Wl,-z,--as-needed,-O1"});
	if (maybe(5)) pool.push_back({"-Wl,--second-list,-x"});
	if (maybe(4)) {
		// one list with more elements than any fixed-size scratch array is likely to hold
		std::string l = r.coin(1, 2) ? "-Wl" : r.coin(1, 2) ? "-Wa" : "-Wp";
		int ne = 30 + (int)r.below(40);
		for (int i = 0; i < ne; i++) l += ",-e" + std::to_string(i);
		pool.push_back({l});
	}
	if (maybe(20)) pool.push_back(opt_val(r, "-L", paths[r.below(4)]));
	if (maybe(10)) pool.push_back({"-s"});
	if (maybe(10)) pool.push_back({"-static"});
	if (maybe(10)) pool.push_back({"-pthread"});
	if (maybe(10)) pool.push_back({"-nostdlib"});
	if (maybe(10)) pool.push_back({r.coin(1, 2) ? "-g" : "-g3"});
	if (maybe(10)) pool.push_back({r.coin(1, 2) ? "-O2" : "-Os"});
	if (maybe(6)) pool.push_back({"-pipe"});
	if (maybe(6)) pool.push_back({"-pedantic"});
	if (maybe(10)) pool.push_back({r.coin(1, 2) ? "-Wall" : "-Wno-unused"});
	if (maybe(8)) pool.push_back({"-v"});
	// a long command line: the per-stage argument arrays grow past their initial capacity (32 pointers) more than once
	if (maybe(6)) {
		int many = 20 + (int)r.below(120);
		for (int i = 0; i < many; i++) {
			switch (r.below(5)) {
			case 0: pool.push_back(opt_val(r, "-D", "M" + std::to_string(i) + "=" + std::to_string(i))); break;
			case 1: pool.push_back(opt_val(r, "-I", "inc/d" + std::to_string(i))); break;
			case 2: pool.push_back(opt_val(r, "-L", "lib/d" + std::to_string(i))); break;
			case 3: pool.push_back({"-Wa,--opt" + std::to_string(i)}); break;
			default: pool.push_back(opt_val(r, "-U", "U" + std::to_string(i))); break;
			}
		}
	}
	// option values that look like options themselves
	if (maybe(8)) {
		static const char *odd[] = {"-E", "-c", "-S", "-emit-qbe", "-M", "-MM", "-o", "-", "--", "-x", "-lfoo", "-Wl,x", "-nostdlib", "-v", ""};
		static const char *opts[] = {"-D", "-U", "-I", "-L", "-include", "-isystem", "-idirafter", "-iquote", "-MF", "-MT"};
		const char *o = opts[r.below(10)];
		pool.push_back({o, odd[r.below(15)]});  // detached only: attached "-D-E" is simply the value "-E"
	}
	// the same option more than once: every occurrence is passed on, in order
	if (!pool.empty() && maybe(25)) {
		int nd = 1 + (int)r.below(2);
		for (int i = 0; i < nd; i++) pool.push_back(pool[r.below((uint32_t)pool.size())]);
	}
	(void)mode;
	return pool;
}

const char *mode_flag(int mode, Rng &r) {
	switch (mode) {
	case PREPROCESS: return r.coin(1, 8) ? (r.coin(1, 2) ? "-M" : "-MM") : "-E";
	case COMPILE: return "-emit-qbe";
	case CODEGEN: return "-S";
	case ASSEMBLE: return "-c";
	}
	return nullptr;
}

std::string tool_name(int kind) {
	const Config &c = config();
	if (kind == COMPILE) return "/sim/bin/cproc-qbe";
	return c.cmd[kind].empty() ? "" : c.cmd[kind][0];
}

}  // namespace

// ---------------------------------------------------------------- C17
Scenario gen_c17(uint64_t seed) {
	Rng r(seed);
	Scenario sc;
	sc.prop = "C17";
	sc.origin_seed = seed;
	{
		static const char *names[] = {"cproc", "cproc", "cproc", "/opt/x/bin/cproc", "./cproc", "bin/cproc", "cc", ""};
		sc.argv.push_back(names[r.below(8)]);
	}
	sc.readlink_fail = r.coin(1, 6);
	sc.sigchld_ignored = r.coin(1, 16);
	sc.stdin_closed = r.coin(1, 12);
	sc.heap_fill = r.coin(1, 2) ? (int)r.below(3) : 0;
	sc.output_symlink = r.coin(1, 10);
	if (r.coin(1, 8)) { int n = 1 + (int)r.below(2); for (int i = 0; i < n; i++) sc.path_decoys.push_back(tool_name((int[]){PREPROCESS, CODEGEN, ASSEMBLE, LINK}[r.below(4)])); }
	sc.pipe_cap = 1 + r.below(4);
	sc.pid_base = 50 + r.below(5000);
	sc.stdin_units = r.below(5);
	sc.sched_seed = r.next();
	if (r.coin(1, 10)) { sc.stray_exit_step = r.below(40); sc.stray_status = r.coin(1, 2) ? 0 : (1 << 8); }

	int mode = r.coin(2, 5) ? LINK : (int)r.below(4);
	bool invalid = r.coin(3, 20);
	int invalid_kind = invalid ? (int)r.below(12) : -1;

	// inputs, in order, with -x switches inline
	std::vector<Item> inseq;
	int ninputs = 1 + (r.coin(3, 5) ? r.below(2) : r.coin(1, 10) ? r.below(12) : r.below(6));
	bool have_dash = false;
	bool xactive = false;
	int nentries = 0;
	static const char *dirs[] = {"", "", "src/", "../x/", "/abs/", "src.d/", "../v1.2/", "./", "./-", "a b/", "x,y/", "k=v/"};
	for (int i = 0; i < ninputs; i++) {
		int ty;
		ty = (int)r.below(NTY);  // including inputs that take no part in this mode (a header when linking): they must be ignored altogether
		std::string base = std::string(dirs[r.below(r.coin(1, 6) ? 12 : 8)]) + (r.coin(1, 12) ? "." : "") + "f" + std::to_string(i) + (r.coin(1, 6) ? ".x" : "");
		// "./-" + ".f0": the base name would be "-", whose derived output (-.o, -.s) is the one standard input gets
		if (base.compare(0, 4, "./-.") == 0) base.erase(3, 1);
		if (r.coin(1, 8) && TYPES[ty].xlang) {
			// forced language, arbitrary or missing suffix, or standard input
			inseq.push_back(opt_val(r, "-x", TYPES[ty].xlang));
			xactive = true;
			if (!have_dash && r.coin(1, 2)) { inseq.push_back({"-"}); have_dash = true; nentries++; }
			else {
				static const char *odd[] = {".txt", "", ".i", ".c", ".h.in"};  // never an output suffix (.o .s .qbe): the derived output must not be the input itself
				std::string nm = base + odd[r.below(5)];
				inseq.push_back({nm});
				sc.files.emplace_back(nm, (int)r.below(5));
				nentries++;
			}
			if (r.coin(2, 3)) { inseq.push_back(opt_val(r, "-x", "none")); xactive = false; }
			continue;
		}
		if (xactive) { inseq.push_back(opt_val(r, "-x", "none")); xactive = false; }
		// objects: anything whose suffix is not exactly one of the six source suffixes, including look-alikes
		static const char *objsuf[] = {".a", ".o", ".o", "", ".so", ".so.1", ".lo", ".obj", ".cc", ".cpp", ".hpp", ".in", ".html", ".ss", ".Sx", ".ii", ".qbe2", ".c.orig", ".C", ".H", ".sS"};
		std::string nm = base + (ty == TY_O ? objsuf[r.below(21)] : TYPES[ty].suffix);
		if (ty == TY_O && nm.find('.') == std::string::npos && nm[0] == '-') nm = "./" + nm;
		inseq.push_back({nm});
		sc.files.emplace_back(nm, (int)r.below(5));
		nentries++;
		if (r.coin(1, 6)) { inseq.push_back(opt_val(r, "-l", r.coin(1, 2) ? "m" : "foo")); nentries++; }
	}

	if (mode == LINK && r.coin(1, 25)) { inseq.push_back({""}); nentries++; }  // an operand that is the empty string is still an operand
	std::vector<Item> opts = random_options(r, mode, 3 + r.below(8));
	if (mode != LINK) opts.push_back({mode_flag(mode, r)});
	bool want_o = r.coin(1, 2);
	if (want_o) {
		if (mode != LINK && nentries > 1 && !invalid) want_o = false;  // only "-o -" is valid there, added below
	}
	if (!want_o && mode != LINK && mode != ASSEMBLE && nentries > 1 && r.coin(1, 4)) opts.push_back(opt_val(r, "-o", "-"));
	if (want_o) {
		std::string o = r.coin(1, 5) && (mode == PREPROCESS || mode == COMPILE || mode == CODEGEN) ? "-" : (r.coin(1, 3) ? "build/out.bin" : "out");
		opts.push_back(opt_val(r, "-o", o));
	}

	Item tail;  // must be last
	if (invalid) {
		switch (invalid_kind) {
		case 0: inseq.clear(); sc.files.clear(); break;  // no input
		case 1: if (mode != LINK) { opts.push_back({"-o", "x"}); inseq.push_back({"extra.c"}); sc.files.emplace_back("extra.c", 1); } break;
		case 2: opts.push_back({"-o", "-"}); if (mode != ASSEMBLE && mode != LINK) opts.push_back({"-c"}); break;
		case 3: inseq.push_back(opt_val(r, "-x", "none")); inseq.push_back({"-"}); break;  // '-' without -x
		case 4: opts.push_back({r.coin(1, 2) ? "-frobnicate" : "-Z"}); break;
		case 5: opts.push_back(opt_val(r, "-x", "fortran")); break;
		case 6: {
			static const char *need[] = {"-D", "-U", "-I", "-L", "-l", "-o", "-x", "-include", "-isystem", "-idirafter", "-iquote", "-MF", "-MT"};
			tail = {need[r.below(13)]};
			// with and without a detached-form option before it (different paths through argc bookkeeping)
			if (r.coin(1, 2)) opts.push_back({"-D", "DETACHED"});
			break;
		}
		case 7: { static const char *bad[] = {"-cfoo", "-Ex", "-Sx", "-sx", "-vv", "-shared", "-static-pie", "-save-temps", "-sysroot", "-c99", "-Eh", "-verbose", "-Shared", "-Pfoo", "-Pipe", "-PP"}; opts.push_back({bad[r.below(16)]}); break; }
		case 8: opts.push_back({r.coin(1, 2) ? "-MFfile" : "-MQ"}); break;
		case 9: opts.push_back({"-includefoo.h"}); break;
		case 10: opts.push_back({r.coin(1, 2) ? "-nostdfoo" : "-pthreads"}); break;
		case 11: opts.push_back({"-emit-llvm"}); break;
		}
	}

	// random interleaving that keeps the order of the input sequence
	shuffle(opts, r);
	std::vector<Item> all;
	size_t a = 0, b = 0;
	while (a < inseq.size() || b < opts.size()) {
		bool take_in = a < inseq.size() && (b >= opts.size() || r.below((uint32_t)(inseq.size() - a + opts.size() - b)) < inseq.size() - a);
		all.push_back(take_in ? inseq[a++] : opts[b++]);
	}
	for (auto &it : all) for (auto &s : it) sc.argv.push_back(s);
	for (auto &s : tail) sc.argv.push_back(s);
	return sc;
}

// ---------------------------------------------------------------- C18
namespace {
struct Cell { int ninputs, last, fin, fstage, fmode; };  // fmode: 0 none, 1..6 Mode, 7 spawn failure
std::vector<Cell> build_cells() {
	std::vector<Cell> cells;
	for (int n = 1; n <= 3; n++)
		for (int last = PREPROCESS; last <= LINK; last++) {
			cells.push_back({n, last, 0, 0, 0});  // fault-free
			for (int fin = 0; fin < n; fin++)
				for (int st = PREPROCESS; st <= last && st <= ASSEMBLE; st++)
					for (int fm = 1; fm <= 7; fm++) {
						if (fm == M_NODRAIN && (st == PREPROCESS || st == ASSEMBLE && false)) continue;  // a first stage has no pipe to leave undrained
						cells.push_back({n, last, fin, st, fm});
					}
			if (last == LINK)
				for (int fm = 1; fm <= 7; fm++) {
					if (fm == M_NODRAIN) continue;
					cells.push_back({n, last, -1, LINK, fm});
				}
		}
	return cells;
}
const std::vector<Cell> &cells() {
	static std::vector<Cell> c = build_cells();
	return c;
}
}  // namespace

const int C18_NCELLS = (int)build_cells().size();

std::string c18_cell_name(uint64_t index) {
	const Cell &c = cells()[index % cells().size()];
	char buf[128];
	static const char *fm[] = {"none", "exit1_before_read", "exit1_after_half", "exit1_after_all", "sigsegv", "sigkill", "nodrain", "spawn_failure"};
	snprintf(buf, sizeof buf, "inputs=%d last=%s fail=%s@%s mode=%s", c.ninputs, stage_name[c.last],
	         c.fmode == 0 ? "-" : c.fin < 0 ? "link" : ("input" + std::to_string(c.fin)).c_str(), c.fmode == 0 ? "-" : stage_name[c.fstage], fm[c.fmode]);
	return buf;
}

Scenario gen_c18(uint64_t seed, uint64_t index, bool relaxed) {
	Rng r(seed);
	const Cell &c = cells()[index % cells().size()];
	Scenario sc;
	sc.prop = "C18";
	sc.origin_seed = seed;
	sc.origin_index = index;
	sc.cell = c18_cell_name(index);
	sc.argv.push_back("cproc");
	sc.readlink_fail = r.coin(1, 10);
	sc.stdin_closed = r.coin(1, 12);
	sc.sigchld_ignored = r.coin(1, 12);
	sc.pipe_cap = 1 + r.below(4);
	sc.pid_base = 50 + r.below(5000);
	sc.stdin_units = r.below(4);
	sc.sched_seed = r.next();
	if (r.coin(1, 5)) { sc.stray_exit_step = r.below(60); sc.stray_status = r.coin(1, 2) ? 0 : r.coin(1, 2) ? (1 << 8) : 11; }

	// inputs: the failing input is a .c file (has every stage up to `last`);
	// the others are any type that takes part in the last stage
	std::vector<int> types;
	for (int i = 0; i < c.ninputs; i++) {
		int ty = TY_C;
		if (i == c.fin && c.fmode != 0 && r.coin(1, 2)) {
			// the failing input: any type whose pipeline contains the failing stage and the last stage
			for (int tries = 0; tries < 20; tries++) {
				int cand = (int)r.below(NTY);
				bool has_f = false, has_l = false;
				for (int s : TYPES[cand].stages) { if (s == c.fstage) has_f = true; if (s == c.last) has_l = true; }
				if (has_f && has_l && !(c.last == LINK && cand == TY_H)) { ty = cand; break; }
			}
		} else if (i != c.fin || c.fmode == 0) {
			for (int tries = 0; tries < 20; tries++) {
				ty = (int)r.below(NTY);
				bool part = false;
				for (int s : TYPES[ty].stages) if (s == c.last) part = true;
				if (part && !(c.last == LINK && ty == TY_H) && !(r.coin(1, 2) && ty != TY_C)) break;
				ty = TY_C;
			}
		}
		types.push_back(ty);
	}
	std::vector<Item> items;
	// one input may be standard input (-x LANG - -x none); the terminal behind it may stay open for ever
	int dash = -1;
	if (r.coin(1, 5)) { int cand = (int)r.below((uint32_t)c.ninputs); if (TYPES[types[cand]].xlang) dash = cand; }
	if (dash >= 0) sc.stdin_stays_open = !sc.stdin_closed && r.coin(1, 2);
	// the caller may have SIGTERM ignored or blocked; children inherit both through posix_spawn
	if (r.coin(1, 8)) sc.sigterm_inherited = 1 + (int)r.below(2);
	sc.heap_fill = r.coin(1, 2) ? (int)r.below(3) : 0;
	if (r.coin(1, 8)) sc.term_immune.emplace_back((int)r.below(4), (int)r.below((uint32_t)c.ninputs));
	sc.output_symlink = r.coin(1, 10);
	if (r.coin(1, 12)) sc.path_decoys.push_back(tool_name((int[]){PREPROCESS, CODEGEN, ASSEMBLE, LINK}[r.below(4)]));
	for (int i = 0; i < c.ninputs; i++) {
		if (i == dash) { items.push_back({"-x", TYPES[types[i]].xlang, "-", "-x", "none"}); continue; }
		std::string nm = "in" + std::to_string(i) + TYPES[types[i]].suffix;
		items.push_back({nm});
		sc.files.emplace_back(nm, (int)r.below(6));
	}
	std::vector<Item> opts = random_options(r, c.last, 2);
	if (c.last != LINK) opts.push_back({c.last == PREPROCESS ? "-E" : c.last == COMPILE ? "-emit-qbe" : c.last == CODEGEN ? "-S" : "-c"});
	if ((c.ninputs == 1 || c.last == LINK) && r.coin(1, 2)) opts.push_back({"-o", c.last == LINK ? "prog" : "result.out"});
	shuffle(opts, r);
	// keep inputs in order but scatter them between options
	{
		std::vector<Item> all;
		size_t a = 0, b = 0;
		while (a < items.size() || b < opts.size()) {
			bool take_in = a < items.size() && (b >= opts.size() || r.coin(1, 2));
			all.push_back(take_in ? items[a++] : opts[b++]);
		}
		sc.argv.resize(1);
		for (auto &it : all) for (auto &s : it) sc.argv.push_back(s);
	}

	// spawn index bookkeeping: stages each input runs
	auto runs = [&](int ty) {
		std::vector<int> v;
		for (int s : TYPES[ty].stages) if (s <= c.last && s != LINK) v.push_back(s);
		return v;
	};
	auto occ_of = [&](int input, int stage) {
		int occ = 0;
		for (int i = 0; i < input; i++) for (int s : runs(types[i])) if (s == stage) occ++;
		return occ;
	};
	auto spawn_index = [&](int input, int stage) {
		int idx = 0;
		for (int i = 0; i < input; i++) idx += (int)runs(types[i]).size();
		for (int s : runs(types[input])) { if (s == stage) break; idx++; }
		return idx;
	};
	int total_spawns = 0;
	for (int i = 0; i < c.ninputs; i++) total_spawns += (int)runs(types[i]).size();

	auto add_failure = [&](int input, int stage, int fmode) {
		int occ = stage == LINK ? 0 : occ_of(input, stage);
		if (fmode >= 1 && fmode <= 6) {
			ToolPlan p;
			p.kind = stage; p.occ = occ; p.mode = fmode;
			switch (fmode) {
			case M_EXIT1_BEFORE_READ: p.param = r.below(2); break;
			case M_EXIT1_AFTER_HALF: p.param = 1 + r.below(4); break;
			case M_SIGSEGV: p.param = r.below(8); break;
			case M_SIGKILL: p.param = r.below(120); break;
			}
			// exit codes other than 1 and fatal signals other than SIGSEGV in a third of the runs
			if (r.coin(1, 3)) {
				static const int codes[] = {2, 3, 42, 126, 127, 128, 255};
				static const int sigs[] = {SIGSEGV, SIGABRT | 0x80, SIGBUS | 0x80, SIGILL | 0x80, SIGFPE | 0x80, SIGHUP, SIGINT, SIGTERM, SIGPIPE, SIGXCPU | 0x80};
				if (fmode == M_SIGSEGV) p.code = sigs[r.below(10)];
				else if (fmode != M_SIGKILL) p.code = codes[r.below(7)];
			}
			sc.plans.push_back(p);
		} else if (fmode == 7) {
			int v = (int)r.below(stage == LINK ? 2 : 6);
			static const int errs[] = {ENOENT, EACCES, EAGAIN, ENOMEM};
			int sidx = stage == LINK ? total_spawns : spawn_index(input, stage);
			// pipes are created for every non-last stage: the n-th pipe belongs to the n-th non-last spawn
			auto pipe_index = [&]() {
				int idx = 0;
				for (int i = 0; i <= input; i++) {
					std::vector<int> rs = runs(types[i]);
					for (size_t k = 0; k < rs.size(); k++) {
						if (i == input && rs[k] == stage) return k + 1 < rs.size() ? idx : -1;
						if (k + 1 < rs.size()) idx++;
					}
				}
				return -1;
			};
			switch (v) {
			case 0: sc.faults.push_back({"spawn", sidx, errs[r.below(4)]}); if (sc.faults.back().err == EAGAIN || sc.faults.back().err == ENOMEM) sc.faults.back().persistent = r.coin(1, 2); break;
			case 1:
				if (occ == 0) { sc.missing_tools.push_back(tool_name(stage)); if (sc.readlink_fail && stage == COMPILE) sc.missing_tools.back() = sc.argv[0] + "-qbe"; }
				else sc.faults.push_back({"spawn", sidx, ENOENT});
				break;
			case 2: { int pi = pipe_index(); if (pi >= 0) sc.faults.push_back({"pipe", pi, r.coin(1, 2) ? EMFILE : ENFILE}); else sc.faults.push_back({"spawn", sidx, EAGAIN}); break; }
			case 3: { int pi = pipe_index(); if (pi >= 0) sc.faults.push_back({"fcntl", pi * 2 + (int)r.below(2), EBADF}); else sc.faults.push_back({"spawn", sidx, EAGAIN}); break; }
			case 4: sc.faults.push_back({"fa_init", sidx, ENOMEM}); break;
			case 5: {
				// adddup2 calls: one for stdin if not first stage, one for stdout if not last stage
				int idx = 0;
				bool found = false;
				for (int i = 0; i <= input && !found; i++) {
					std::vector<int> rs = runs(types[i]);
					for (size_t k = 0; k < rs.size(); k++) {
						int n = (k > 0) + (k + 1 < rs.size());
						if (i == input && rs[k] == stage) { if (n > 0) { sc.faults.push_back({"fa_adddup2", idx + (int)r.below(n), ENOMEM}); found = true; } break; }
						idx += n;
					}
				}
				if (!found) sc.faults.push_back({"spawn", sidx, ENOMEM});
				break;
			}
			}
		}
	};
	if (c.fmode) add_failure(c.fin < 0 ? 0 : c.fin, c.fstage, c.fmode);
	// a minority of runs have a second, independent failure
	if (c.fmode && r.coin(1, 4)) {
		int in2 = (int)r.below(c.ninputs);
		std::vector<int> rs = runs(types[in2]);
		if (!rs.empty()) {
			int st2 = rs[r.below((uint32_t)rs.size())];
			int fm2 = 1 + (int)r.below(5);
			bool dup = false;
			for (auto &p : sc.plans) if (p.kind == st2 && p.occ == occ_of(in2, st2)) dup = true;
			if (!dup) add_failure(in2, st2, fm2);
		}
	}
	// a stage that is stopped and later continued (job control, a debugger): only a delay
	if (r.coin(1, 5)) {
		int in2 = (int)r.below(c.ninputs);
		std::vector<int> rs = runs(types[in2]);
		if (!rs.empty()) {
			StopPlan sp;
			sp.kind = rs[r.below((uint32_t)rs.size())];
			sp.occ = occ_of(in2, sp.kind);
			sp.at = (int)r.below(6);
			sp.duration = 1 + (int)r.below(40);
			sc.stops.push_back(sp);
		}
	}
	// a rebuild: some of the files this invocation may produce exist already
	if (r.coin(1, 3)) {
		for (int i = 0; i < c.ninputs; i++) {
			static const char *ext[] = {".o", ".s", ".qbe"};
			for (int k = 0; k < 3; k++) if (r.coin(1, 2) && types[i] != (k == 0 ? TY_O : k == 1 ? TY_s : TY_QBE)) sc.files.emplace_back("in" + std::to_string(i) + ext[k], 1 + (int)r.below(3));
		}
		if (r.coin(1, 2)) sc.files.emplace_back("result.out", 2);
		if (r.coin(1, 2)) sc.files.emplace_back("prog", 2);
		if (r.coin(1, 2)) sc.files.emplace_back("a.out", 2);
	}
	if (relaxed) {
		if (r.coin(1, 2) && c.last == LINK) sc.faults.push_back({"mkstemp", (int)r.below(c.ninputs), r.coin(1, 2) ? EACCES : ENOSPC});
		else sc.faults.push_back({"alloc", (int)r.below(40), ENOMEM});
	}
	return sc;
}

}  // namespace sa
