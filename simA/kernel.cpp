// Simulated POSIX kernel, stub tools and scheduler for the cproc driver.
// The driver's system interface is redirected here with -Wl,--wrap=<sym>.
#include "sim.hpp"
#include <cerrno>
#include <csetjmp>
#include <cstdarg>
#include <fcntl.h>
#include <malloc.h>
#include <sys/auxv.h>
#include <signal.h>
#include <spawn.h>
#include <sys/stat.h>
#include <sys/types.h>
#include <time.h>
#include <sys/wait.h>
#include <unistd.h>

extern "C" int cproc_driver_main(int argc, char **argv);
extern "C" {
int __real_pipe(int *);
int __real_fcntl(int, int, ...);
int __real_close(int);
pid_t __real_wait(int *);
pid_t __real_waitpid(pid_t, int *, int);
int __real_kill(pid_t, int);
int __real_unlink(const char *);
int __real_access(const char *, int);
int __real_lstat(const char *, struct stat *);
int __real_stat(const char *, struct stat *);
char *__real_getenv(const char *);
unsigned long __real_getauxval(unsigned long);
unsigned __real_alarm(unsigned);
int __real_nanosleep(const struct timespec *, struct timespec *);
int __real_usleep(useconds_t);
unsigned __real_sleep(unsigned);
int __real_clock_nanosleep(clockid_t, int, const struct timespec *, struct timespec *);
int __real_posix_spawn(pid_t *, const char *, const posix_spawn_file_actions_t *, const posix_spawnattr_t *, char *const[], char *const[]);
void __real__exit(int) __attribute__((noreturn));
int __real_sigprocmask(int, const sigset_t *, sigset_t *);
int __real_pthread_sigmask(int, const sigset_t *, sigset_t *);
int __real_sigaction(int, const struct sigaction *, struct sigaction *);
void (*__real_signal(int, void (*)(int)))(int);
void (*__real___sysv_signal(int, void (*)(int)))(int);
int __real_mkstemp(char *);
ssize_t __real_readlink(const char *, char *, size_t);
void *__real_malloc(size_t);
void *__real_realloc(void *, size_t);
char *__real_strdup(const char *);
}

// config.h of this build, seen through the same enum names driver.c uses.
namespace cfgsrc {
#include "config.h"
}

namespace sa {
static bool is_tmp(const std::string &s) { return !s.empty() && s[0] == '\x01'; }

const Config &config() {
	static Config c;
	static bool init = false;
	if (!init) {
		init = true;
		using namespace cfgsrc;
		c.target = target;
		auto cp = [](std::vector<std::string> &d, const char *const *a, size_t n) {
			for (size_t i = 0; i < n; i++) if (a[i]) d.push_back(a[i]);
		};
		cp(c.startfiles, startfiles, sizeof startfiles / sizeof *startfiles);
		cp(c.endfiles, endfiles, sizeof endfiles / sizeof *endfiles);
		cp(c.cmd[PREPROCESS], preprocesscmd, sizeof preprocesscmd / sizeof *preprocesscmd);
		cp(c.cmd[CODEGEN], codegencmd, sizeof codegencmd / sizeof *codegencmd);
		cp(c.cmd[ASSEMBLE], assemblecmd, sizeof assemblecmd / sizeof *assemblecmd);
		cp(c.cmd[LINK], linkcmd, sizeof linkcmd / sizeof *linkcmd);
		// target flag per the documented triples (property C17: "the target flag where applicable")
		if (c.target.compare(0, 7, "x86_64-") == 0 || c.target.compare(0, 6, "amd64-") == 0) { c.arch = "x86_64-sysv"; c.qbearch = "amd64_sysv"; }
		else if (c.target.compare(0, 8, "aarch64-") == 0) { c.arch = "aarch64"; c.qbearch = "arm64"; }
		else if (c.target.compare(0, 8, "riscv64-") == 0) { c.arch = "riscv64"; c.qbearch = "rv64"; }
	}
	return c;
}

// ------------------------------------------------------------ content algebra
uint64_t unit_hdr(int kind) { return mix(UNIT_HDR, (uint64_t)kind); }
uint64_t unit_trl(int kind, uint64_t count) { return mix(mix(UNIT_TRL, (uint64_t)kind), count); }
void unit_out(int kind, uint64_t u, std::vector<uint64_t> &out) {
	uint64_t h = mix((uint64_t)kind + 77, u);
	unsigned m = (unsigned)(h % 3);
	for (unsigned i = 0; i < m; i++) out.push_back(mix(h, i));
}
Content initial_content(const std::string &name, int units) {
	Content c;
	for (int i = 0; i < units; i++) c.push_back(mix(hash_str(name), (uint64_t)i));
	return c;
}
Content transform(int kind, const Content &in) {
	Content out;
	out.push_back(unit_hdr(kind));
	for (uint64_t u : in) unit_out(kind, u, out);
	out.push_back(unit_trl(kind, in.size()));
	return out;
}
Content link_transform(const std::vector<Content> &objs) {
	Content out;
	out.push_back(unit_hdr(LINK));
	for (auto &o : objs) out.push_back(mix(0x4c4e4bULL, hash_bytes(o.data(), o.size() * 8)));
	out.push_back(unit_trl(LINK, objs.size()));
	return out;
}

// ------------------------------------------------------------ kernel state
namespace {

enum FdKind { FD_NONE = 0, FD_TTYIN, FD_TTYOUT, FD_TTYERR, FD_PIPER, FD_PIPEW, FD_FILE };
struct FdEnt { int kind = FD_NONE; int pipe = -1; bool cloexec = false; };
struct Pipe { std::deque<uint64_t> q; int group = -1; };
struct Inode { Content data; bool complete = false; int creator = 0; bool by_mkstemp = false; };

enum PState { RUNNING = 0, ZOMBIE, REAPED };
enum Phase { PH_START = 0, PH_READ, PH_WRITE, PH_EXIT };

struct Proc {
	int pid = 0;
	int state = RUNNING;
	bool stray = false;
	int countdown = 0;
	std::map<int, FdEnt> fds;
	int kind = -1, occ = 0, group = -1;
	std::vector<std::string> argv;
	int phase = PH_START;
	std::deque<uint64_t> outq;
	bool eof = false;
	int in_src = 0;  // 0 fd0, 1 file
	int in_inode = -1;
	size_t inpos = 0;
	uint64_t nread = 0;
	int out_inode = -1;  // -1: fd 1
	int mode = M_NONE, param = 0;
	int code = 1;                 // exit code of a planned failure, or wait status of a planned fatal signal
	int own_steps = 0, nwritten = 0;
	int pending_sig = 0;
	int wstatus = 0;
	bool failed = false;          // terminated unsuccessfully for a reason other than the driver's signal
	bool fail_planned = false;
	bool killed_by_driver = false;
	int spawn_step = 0, death_step = -1;
	bool blocked_w_seen = false;
	int stop_at = -1, stop_len = 0;   // SIGSTOP at own step stop_at for stop_len scheduler steps
	int stop_left = 0;
	bool stop_unreported = false;
	uint64_t sigmask = 0;            // inherited from the driver at spawn time
	uint64_t sigign = 0;             // dispositions inherited as SIG_IGN (exec keeps ignored signals ignored)
	uint64_t blocked_pending = 0;
};

struct Kernel {
	const Scenario *sc = nullptr;
	Chooser ch;
	jmp_buf jb;
	bool in_driver = false;
	int step = 0;
	int budget = 10000;
	bool hang = false;
	std::string hang_why;
	int exit_status = -1;
	std::vector<Proc> procs;     // index 0: driver
	std::vector<Pipe> pipes;
	std::vector<Inode> inodes;
	std::map<std::string, int> paths;
	std::vector<std::string> mkstemp_paths;
	Content tty_out;
	std::map<const void *, std::vector<std::pair<int, int>>> actions;
	std::map<std::string, int> callcount;
	std::vector<SpawnEvent> spawns;
	int kind_occ[NSTAGE] = {0, 0, 0, 0, 0};
	int next_pid = 100;
	int next_group = 0;
	int mkstemp_n = 0;
	std::string log;
	std::vector<std::string> fired, probes, violations;
	std::set<uint64_t> absstates;
	int first_failure_step = -1;
	bool spawn_failure = false;
	int spawn_failure_group = -1;
	int driver_phase = 0;   // 0 spawning, 1 waiting, 2 post-failure, 3 linking
	bool failure_seen_by_driver = false;
	int last_spawn_ok_step = -1;
	std::vector<void (*)(void)> atexit_handlers;
	bool exiting = false;
	uint64_t sigmask = 0;          // signals the driver has blocked; inherited by every child it spawns
	bool sigchld_ign = false;      // SIGCHLD disposition of the driver
	uint64_t sigign = 0;           // other signals the driver ignores (inherited or set by itself); children inherit them
	bool tty_wait = false;         // some tool is blocked reading a terminal that stays open
	long alarm_at = -1;            // simulated step at which SIGALRM is due (alarm()), -1: none; one second = 40 steps
	void (*alarm_handler)(int) = SIG_DFL;
	bool alarm_restart = false;    // handler installed with SA_RESTART (signal() under _POSIX_C_SOURCE without _DEFAULT_SOURCE is not)
	std::map<std::string, std::string> symlinks;  // name -> target (one level)
	std::map<std::string, std::string> symlink_of;  // target -> the name that pointed to it at the start
	int exec_lookup(const std::string &path);
	int path_search(const std::string &file, int &err);
	const std::string &resolve(const std::string &p) { auto it = symlinks.find(p); return it == symlinks.end() ? p : it->second; }

	void logf(const char *fmt, ...) {
		char buf[2048];
		va_list ap;
		va_start(ap, fmt);
		vsnprintf(buf, sizeof buf, fmt, ap);
		va_end(ap);
		if (log.size() < (1u << 20)) { log += buf; log += '\n'; }
	}
	Proc &driver() { return procs[0]; }
	Proc *find(int pid) {
		for (auto &p : procs) if (p.pid == pid) return &p;
		return nullptr;
	}
	int refs(int pipe, int kind) {
		int n = 0;
		for (auto &p : procs) {
			if (p.state != RUNNING) continue;
			for (auto &f : p.fds) if (f.second.kind == kind && f.second.pipe == pipe) n++;
		}
		return n;
	}
	void violation(const std::string &cls, const std::string &detail) {
		violations.push_back(cls + "\t" + detail);
		logf("!! %s: %s", cls.c_str(), detail.c_str());
	}
	void probe(const char *name) {
		for (auto &p : probes) if (p == name) return;
		probes.push_back(name);
	}
	void fire(const std::string &what) { fired.push_back(what); }

	// --- fault lookup: is the n-th call of `call` planned to fail?
	int fault(const char *call) {
		int idx = callcount[call]++;
		for (auto &f : sc->faults)
			if (f.call == call && (f.index == idx || (f.persistent && f.index < idx))) {
				fire(std::string("fault:") + call);
				logf("  fault %s#%d -> errno %d", call, idx, f.err);
				return f.err ? f.err : EIO;
			}
		return 0;
	}

	void record_abs();
	void die(Proc &p, int wstatus, bool failed, bool planned, const char *why);
	bool runnable(Proc &p);
	void step_proc(Proc &p);
	void start_tool(Proc &p);
	std::vector<int> runnable_children();
	void run_some(int n);
	void enter(const char *call);
	[[noreturn]] void do_hang(const char *why);
	void tick() {
		if (++step > budget) do_hang("step budget exceeded");
	}
};

Kernel *K;

[[noreturn]] void Kernel::do_hang(const char *why) {
	hang = true;
	hang_why = why;
	logf("HANG: %s", why);
	longjmp(jb, 2);
}

void Kernel::record_abs() {
	// abstract state: per live/zombie child (kind, coarse state), driver phase, failure seen
	uint64_t h = mix((uint64_t)driver_phase, failure_seen_by_driver ? 7 : 3);
	for (auto &p : procs) {
		if (&p == &procs[0] || p.stray || p.state == REAPED) continue;
		int st;
		if (p.state == ZOMBIE) st = 10 + (p.failed ? 1 : 0) + (p.killed_by_driver ? 2 : 0);
		else if (p.pending_sig) st = 5;
		else if (!runnable(p)) st = p.phase == PH_READ ? 3 : 4;
		else st = p.phase == PH_START ? 0 : 1;
		h = mix(h, (uint64_t)(p.kind * 32 + st));
	}
	absstates.insert(h);
}

void Kernel::die(Proc &p, int wstatus, bool failed, bool planned, const char *why) {
	p.state = ZOMBIE;
	p.wstatus = wstatus;
	p.failed = failed;
	p.fail_planned = planned;
	p.death_step = step;
	p.fds.clear();
	logf("  [%d] pid %d %s dies: %s (wstatus 0x%x)", step, p.pid, p.stray ? "stray" : stage_name[p.kind], why, wstatus);
	if (sigchld_ign) { p.state = REAPED; probe("child_reaped_by_kernel_sigchld_ignored"); }
	if (failed && !p.stray) {
		if (first_failure_step < 0) first_failure_step = step;
		if (planned) fire(std::string("tool:") + mode_name[p.mode]);
		else fire(std::string("natural:") + why);
	}
}

static bool takes_arg(int kind, const std::string &a) {
	static const char *pp[] = {"-D", "-U", "-I", "-include", "-isystem", "-idirafter", "-iquote", "-MF", "-MT", "-o", nullptr};
	static const char *cc[] = {"-t", "-o", nullptr};
	static const char *as[] = {"-o", nullptr};
	static const char *ld[] = {"-o", "-L", "-l", "--dynamic-linker", nullptr};
	const char **t = kind == PREPROCESS ? pp : kind == COMPILE || kind == CODEGEN ? cc : kind == ASSEMBLE ? as : ld;
	for (; *t; t++) if (a == *t) return true;
	return false;
}

void Kernel::start_tool(Proc &p) {
	// parse the command line the way the real tool would
	std::vector<std::string> pos;
	std::string outp;
	bool have_o = false;
	for (size_t i = 1; i < p.argv.size(); i++) {
		const std::string &a = p.argv[i];
		if (a.empty()) continue;  // an empty argument (-Wa, with an empty list element) names nothing
		if (a.size() > 1 && a[0] == '-') {
			if (takes_arg(p.kind, a)) {
				if (i + 1 >= p.argv.size()) { die(p, 1 << 8, true, false, "option lacks argument"); return; }
				if (a == "-o") { outp = p.argv[i + 1]; have_o = true; }
				i++;
			}
			continue;
		}
		pos.push_back(a);
	}
	if (p.mode == M_EXIT1_BEFORE_READ && (p.param & 1)) {
		die(p, p.code << 8, true, true, "exit before opening anything");
		return;
	}
	if (have_o) {
		outp = resolve(outp);
		auto it = paths.find(outp);
		int ino;
		if (it == paths.end()) {
			ino = (int)inodes.size();
			inodes.emplace_back();
			paths[outp] = ino;
		} else ino = it->second;
		inodes[ino].data.clear();
		inodes[ino].complete = false;
		inodes[ino].creator = p.pid;
		p.out_inode = ino;
		logf("  [%d] pid %d %s opens output %s", step, p.pid, stage_name[p.kind], outp.c_str());
	} else {
		auto f = p.fds.find(1);
		if (f == p.fds.end()) { die(p, 1 << 8, true, false, "stdout closed"); return; }
	}
	if (p.kind == LINK) {
		std::vector<Content> objs;
		for (auto &o : pos) {
			auto it = paths.find(resolve(o));
			if (it == paths.end() || !inodes[it->second].complete) {
				logf("  link: object %s %s", o.c_str(), it == paths.end() ? "missing" : "incomplete");
				die(p, 1 << 8, true, false, "object missing or incomplete");
				return;
			}
			objs.push_back(inodes[it->second].data);
		}
		if (p.mode == M_EXIT1_BEFORE_READ) { die(p, p.code << 8, true, true, "exit before reading"); return; }
		Content out = link_transform(objs);
		for (uint64_t u : out) p.outq.push_back(u);
		p.eof = true;
		p.phase = PH_WRITE;
		return;
	}
	if (pos.size() > 1) { die(p, 1 << 8, true, false, "more than one input operand"); return; }
	if (pos.size() == 1) {
		auto it = paths.find(resolve(pos[0]));
		if (it == paths.end() || !inodes[it->second].complete) { die(p, 1 << 8, true, false, "input file missing"); return; }
		p.in_src = 1;
		p.in_inode = it->second;
	} else {
		p.in_src = 0;
		if (p.fds.find(0) == p.fds.end()) { die(p, 1 << 8, true, false, "stdin closed"); return; }
	}
	if (p.mode == M_EXIT1_BEFORE_READ) { die(p, p.code << 8, true, true, "exit before reading"); return; }
	p.outq.push_back(unit_hdr(p.kind));
	p.phase = PH_WRITE;
}

bool Kernel::runnable(Proc &p) {
	if (p.state != RUNNING || &p == &procs[0]) return false;
	if (p.stray) return true;
	if (p.pending_sig) return true;
	if (p.mode == M_SIGKILL && step >= p.param) return true;
	if (p.stop_left > 0) return true;
	switch (p.phase) {
	case PH_START: case PH_EXIT: return true;
	case PH_READ:
		if (p.mode == M_NODRAIN) return true;
		if (p.in_src == 1) return true;
		{
			FdEnt &f = p.fds[0];
			if (f.kind == FD_PIPER) return !pipes[f.pipe].q.empty() || refs(f.pipe, FD_PIPEW) == 0;
			if (f.kind == FD_TTYIN && sc->stdin_stays_open && (int)p.inpos >= sc->stdin_units) { tty_wait = true; return false; }
			return true;
		}
	case PH_WRITE:
		if (p.out_inode >= 0) return true;
		{
			FdEnt &f = p.fds[1];
			if (f.kind == FD_PIPEW) {
				bool ok = (int)pipes[f.pipe].q.size() < sc->pipe_cap || refs(f.pipe, FD_PIPER) == 0;
				if (!ok) p.blocked_w_seen = true;
				return ok;
			}
			return true;
		}
	}
	return false;
}

void Kernel::step_proc(Proc &p) {
	tick();
	if (p.stray) {
		if (--p.countdown <= 0) die(p, sc->stray_status, false, false, "stray child ends");
		return;
	}
	if (p.pending_sig) {
		int s = p.pending_sig;
		p.pending_sig = 0;
		die(p, s, false, false, "signal from driver");
		p.killed_by_driver = true;
		if (p.blocked_w_seen) probe("upstream_blocked_on_full_pipe_when_killed");
		return;
	}
	if (p.mode == M_SIGKILL && step >= p.param) { die(p, SIGKILL, true, true, "SIGKILL"); return; }
	if (p.stop_left > 0) {
		// stopped: the step is time passing until SIGCONT
		if (--p.stop_left == 0) logf("  [%d] pid %d %s continued", step, p.pid, stage_name[p.kind]);
		return;
	}
	if (p.stop_at >= 0 && p.own_steps >= p.stop_at) {
		p.stop_at = -1;
		p.stop_left = p.stop_len > 0 ? p.stop_len : 1;
		p.stop_unreported = true;
		logf("  [%d] pid %d %s stopped (SIGSTOP) for %d steps", step, p.pid, stage_name[p.kind], p.stop_left);
		probe("tool_stopped_and_continued");
		return;
	}
	p.own_steps++;
	if (p.mode == M_SIGSEGV && p.own_steps > p.param) { die(p, p.code, true, true, "fatal signal (SIGSEGV class)"); return; }
	switch (p.phase) {
	case PH_START:
		start_tool(p);
		break;
	case PH_READ: {
		if (p.mode == M_NODRAIN) { p.phase = PH_EXIT; probe("tool_exits_0_without_draining"); break; }
		bool got = false;
		uint64_t u = 0;
		if (p.in_src == 1) {
			Inode &in = inodes[p.in_inode];
			if (p.inpos < in.data.size()) { u = in.data[p.inpos++]; got = true; }
		} else {
			FdEnt &f = p.fds[0];
			if (f.kind == FD_PIPER) {
				Pipe &pp = pipes[f.pipe];
				if (!pp.q.empty()) { u = pp.q.front(); pp.q.pop_front(); got = true; }
			} else if (f.kind == FD_TTYIN) {
				if ((int)p.inpos < sc->stdin_units) { u = mix(0x57444eULL, p.inpos++); got = true; }
			}
		}
		if (got) {
			p.nread++;
			std::vector<uint64_t> o;
			unit_out(p.kind, u, o);
			for (uint64_t x : o) p.outq.push_back(x);
		} else {
			p.eof = true;
			p.outq.push_back(unit_trl(p.kind, p.nread));
		}
		if (!p.outq.empty()) p.phase = PH_WRITE;
		break;
	}
	case PH_WRITE: {
		uint64_t u = p.outq.front();
		if (p.out_inode >= 0) inodes[p.out_inode].data.push_back(u);
		else {
			FdEnt &f = p.fds[1];
			if (f.kind == FD_PIPEW) {
				if (refs(f.pipe, FD_PIPER) == 0) { die(p, SIGPIPE, true, false, "SIGPIPE"); return; }
				pipes[f.pipe].q.push_back(u);
			} else if (f.kind == FD_TTYOUT) tty_out.push_back(u);
			else { die(p, 1 << 8, true, false, "bad stdout"); return; }
		}
		p.outq.pop_front();
		p.nwritten++;
		if (p.mode == M_EXIT1_AFTER_HALF && p.nwritten >= p.param) { die(p, p.code << 8, true, true, "exit after writing part"); return; }
		if (p.outq.empty()) p.phase = p.eof ? PH_EXIT : PH_READ;
		break;
	}
	case PH_EXIT:
		if (p.mode == M_EXIT1_AFTER_HALF) { die(p, p.code << 8, true, true, "exit after writing part"); return; }
		if (p.out_inode >= 0) inodes[p.out_inode].complete = true;
		if (p.mode == M_EXIT1_AFTER_ALL) { die(p, p.code << 8, true, true, "exit after finishing"); return; }
		die(p, 0, false, false, "exit 0");
		break;
	}
}

std::vector<int> Kernel::runnable_children() {
	std::vector<int> r;
	for (size_t i = 1; i < procs.size(); i++) if (runnable(procs[i])) r.push_back((int)i);
	return r;
}

void Kernel::run_some(int n) {
	for (int i = 0; i < n; i++) {
		std::vector<int> r = runnable_children();
		if (r.empty()) return;
		int k = (int)ch.pick((uint32_t)r.size());
		step_proc(procs[r[k]]);
	}
}

// every wrapped call made by the driver is a scheduling point
void Kernel::enter(const char *call) {
	(void)call;
	tick();
	record_abs();
	if (procs.size() > 1) {
		bool any = false;
		for (size_t i = 1; i < procs.size(); i++) if (procs[i].state == RUNNING) any = true;
		if (any) run_some((int)ch.pick(4));
	}
}

int lowest_free_fd(Proc &p) {
	int fd = 0;
	while (p.fds.count(fd)) fd++;
	return fd;
}

}  // namespace

// ------------------------------------------------------------ wrapped calls
extern "C" {

#define IN_DRIVER (K && K->in_driver)

int __wrap_pipe(int fd[2]) {
	if (!IN_DRIVER) return __real_pipe(fd);
	K->enter("pipe");
	if (int e = K->fault("pipe")) { errno = e; K->logf("[%d] pipe -> -1 errno %d", K->step, e); return -1; }
	Proc &d = K->driver();
	int pid = (int)K->pipes.size();
	K->pipes.emplace_back();
	int r = lowest_free_fd(d);
	d.fds[r] = FdEnt{FD_PIPER, pid, false};
	int w = lowest_free_fd(d);
	d.fds[w] = FdEnt{FD_PIPEW, pid, false};
	fd[0] = r;
	fd[1] = w;
	K->logf("[%d] pipe -> [%d,%d] (pipe#%d)", K->step, r, w, pid);
	return 0;
}

int __wrap_fcntl(int fd, int cmd, ...) {
	va_list ap;
	va_start(ap, cmd);
	long arg = va_arg(ap, long);
	va_end(ap);
	if (!IN_DRIVER) return __real_fcntl(fd, cmd, arg);
	K->enter("fcntl");
	if (int e = K->fault("fcntl")) { errno = e; K->logf("[%d] fcntl(%d) -> -1 errno %d", K->step, fd, e); return -1; }
	Proc &d = K->driver();
	auto it = d.fds.find(fd);
	if (it == d.fds.end()) { errno = EBADF; K->logf("[%d] fcntl(%d) EBADF", K->step, fd); return -1; }
	if (cmd == F_SETFD) { it->second.cloexec = (arg & FD_CLOEXEC) != 0; K->logf("[%d] fcntl(%d, F_SETFD, %ld)", K->step, fd, arg); return 0; }
	if (cmd == F_GETFD) return it->second.cloexec ? FD_CLOEXEC : 0;
	errno = EINVAL;
	return -1;
}

int __wrap_close(int fd) {
	if (!IN_DRIVER) return __real_close(fd);
	K->enter("close");
	Proc &d = K->driver();
	auto it = d.fds.find(fd);
	if (it == d.fds.end()) { errno = EBADF; K->logf("[%d] close(%d) EBADF", K->step, fd); K->probe("close_ebadf"); return -1; }
	d.fds.erase(it);
	K->logf("[%d] close(%d)", K->step, fd);
	return 0;
}

int __wrap_posix_spawn_file_actions_init(posix_spawn_file_actions_t *fa) {
	K->enter("fa_init");
	if (int e = K->fault("fa_init")) { K->logf("[%d] file_actions_init -> %d", K->step, e); return e; }
	K->actions[fa] = {};
	return 0;
}
int __wrap_posix_spawn_file_actions_adddup2(posix_spawn_file_actions_t *fa, int from, int to) {
	K->enter("fa_adddup2");
	if (int e = K->fault("fa_adddup2")) { K->logf("[%d] file_actions_adddup2 -> %d", K->step, e); return e; }
	auto it = K->actions.find(fa);
	if (it == K->actions.end()) { K->violation("harness/actions-uninitialised", "adddup2 on uninitialised actions"); return EINVAL; }
	if (from < 0 || to < 0) return EBADF;
	it->second.emplace_back(from, to);
	return 0;
}
int __wrap_posix_spawn_file_actions_destroy(posix_spawn_file_actions_t *fa) {
	K->enter("fa_destroy");
	K->actions.erase(fa);
	return 0;
}

}  // extern "C"

// which tool a path names: its stage, -2 for a directory (an earlier PATH entry holding a directory of that name), -1 for nothing
int Kernel::exec_lookup(const std::string &path) {
	const Config &cfg = config();
	auto missing = [&](const std::string &t) { for (auto &m : sc->missing_tools) if (m == t) return true; return false; };
	std::string self_qbe = (sc->readlink_fail ? sc->argv[0] : std::string("/sim/bin/cproc")) + "-qbe";
	if (path == self_qbe && path.find('/') != std::string::npos) return missing(path) ? -1 : COMPILE;
	for (int s = 0; s < NSTAGE; s++) {
		if (s == COMPILE || cfg.cmd[s].empty()) continue;
		const std::string &t = cfg.cmd[s][0];
		if (t.find('/') != std::string::npos) { if (path == t) return missing(t) ? -1 : s; continue; }
		if (path == "/sim/tools/" + t) return missing(t) ? -1 : s;
		if (path == "/sim/decoy/" + t) for (auto &d : sc->path_decoys) if (d == t) return -2;
	}
	if (self_qbe.find('/') == std::string::npos && path == "/sim/tools/" + self_qbe) return missing(self_qbe) ? -1 : COMPILE;
	return -1;
}

// posix_spawnp's search: PATH is /sim/decoy:/sim/tools; a directory entry that cannot be executed (EACCES) is skipped and remembered
int Kernel::path_search(const std::string &file, int &err) {
	err = 0;
	if (file.find('/') != std::string::npos) {
		int k = exec_lookup(file);
		if (k == -2) { err = EACCES; fire("natural:directory_executed"); return -1; }
		if (k < 0) err = ENOENT;
		return k;
	}
	bool eacces = false;
	if (!sc->path_decoys.empty() && exec_lookup("/sim/decoy/" + file) == -2) { eacces = true; probe("path_search_skipped_a_directory"); }
	int k = exec_lookup("/sim/tools/" + file);
	if (k >= 0) return k;
	err = eacces ? EACCES : ENOENT;
	return -1;
}

extern "C" {

static int do_spawn(pid_t *pidp, const char *file, const posix_spawn_file_actions_t *fa, const posix_spawnattr_t *attr, char *const argv[], bool search);
int __wrap_posix_spawnp(pid_t *pidp, const char *file, const posix_spawn_file_actions_t *fa, const posix_spawnattr_t *attr, char *const argv[], char *const envp[]) {
	(void)envp;
	if (!IN_DRIVER) return EINVAL;
	return do_spawn(pidp, file, fa, attr, argv, true);
}
int __wrap_posix_spawn(pid_t *pidp, const char *file, const posix_spawn_file_actions_t *fa, const posix_spawnattr_t *attr, char *const argv[], char *const envp[]) {
	if (!IN_DRIVER) return __real_posix_spawn(pidp, file, fa, attr, argv, envp);
	return do_spawn(pidp, file, fa, attr, argv, false);
}
static int do_spawn(pid_t *pidp, const char *file, const posix_spawn_file_actions_t *fa, const posix_spawnattr_t *attr, char *const argv[], bool search) {
	K->enter("spawn");
	std::vector<std::string> av;
	for (int i = 0; argv && argv[i] && i < 4096; i++) av.push_back(argv[i]);
	std::string cmdline;
	for (auto &a : av) { cmdline += ' '; cmdline += a; }
	const Config &cfg = config();
	std::string f = file ? file : "";
	(void)cfg;
	int lookup_err = 0;
	int kind = search ? K->path_search(f, lookup_err) : K->path_search(f.find('/') == std::string::npos ? "./" + f : f, lookup_err);
	SpawnEvent ev;
	ev.pid = 0; ev.kind = kind; ev.occ = kind >= 0 ? K->kind_occ[kind] : 0; ev.step = K->step; ev.group = -1;
	ev.argv = av; ev.in_kind = ev.out_kind = FD_NONE; ev.in_pipe = ev.out_pipe = -1; ev.ok = false; ev.err = 0;
	int err = K->fault("spawn");
	if (!err && kind < 0) {
		err = lookup_err ? lookup_err : ENOENT;
		bool miss = false;
		std::string base = f.substr(f.rfind('/') == std::string::npos ? 0 : f.rfind('/') + 1);
		for (auto &m : K->sc->missing_tools) if (m == f || m == base) miss = true;
		K->fire(miss ? "fault:tool_missing" : "natural:unknown tool");
	}
	// build the child's descriptor table
	std::map<int, FdEnt> fds;
	Proc &d = K->driver();
	for (auto &e : d.fds) if (!e.second.cloexec) fds[e.first] = e.second;
	if (!err && fa) {
		auto it = K->actions.find(fa);
		if (it == K->actions.end()) err = EINVAL;
		else for (auto &a : it->second) {
			auto src = d.fds.find(a.first);
			// dup2 in the child: source must be open in the child (inherited, i.e. open in the parent)
			if (src == d.fds.end()) { err = EBADF; break; }
			FdEnt e = src->second;
			e.cloexec = false;
			fds[a.second] = e;
		}
	}
	if (fds.count(0)) { ev.in_kind = fds[0].kind; ev.in_pipe = fds[0].pipe; }
	if (fds.count(1)) { ev.out_kind = fds[1].kind; ev.out_pipe = fds[1].pipe; }
	if (err) {
		ev.err = err;
		K->spawns.push_back(ev);
		K->spawn_failure = true;
		if (K->first_failure_step < 0) K->first_failure_step = K->step;
		K->logf("[%d] spawn%s -> error %d", K->step, cmdline.c_str(), err);
		bool others = false;
		for (size_t i = 1; i < K->procs.size(); i++) if (!K->procs[i].stray && K->procs[i].state == RUNNING) others = true;
		if (others) K->probe("spawn_failed_with_earlier_stages_running");
		return err;
	}
	Proc p;
	p.pid = K->next_pid++;
	p.kind = kind;
	p.occ = K->kind_occ[kind]++;
	p.argv = av;
	p.fds = fds;
	p.spawn_step = K->step;
	if (ev.in_kind == FD_PIPER && K->pipes[ev.in_pipe].group >= 0) p.group = K->pipes[ev.in_pipe].group;
	else p.group = K->next_group++;
	if (ev.out_kind == FD_PIPEW) K->pipes[ev.out_pipe].group = p.group;
	for (auto &pl : K->sc->plans) if (pl.kind == kind && pl.occ == p.occ) { p.mode = pl.mode; p.param = pl.param; p.code = pl.mode == M_SIGSEGV ? (pl.code ? pl.code : (SIGSEGV | 0x80)) : (pl.code ? pl.code : 1); }
	p.sigmask = K->sigmask;
	p.sigign = K->sigign;
	if (attr) {
		// the attributes object is glibc's own; its accessors are pure
		short fl = 0;
		posix_spawnattr_getflags(attr, &fl);
		if (fl & POSIX_SPAWN_SETSIGMASK) {
			sigset_t m;
			sigemptyset(&m);
			posix_spawnattr_getsigmask(attr, &m);
			p.sigmask = 0;
			for (int s2 = 1; s2 < 64; s2++) if (sigismember(&m, s2) == 1) p.sigmask |= 1ULL << s2;
		}
		if (fl & POSIX_SPAWN_SETSIGDEF) {
			sigset_t m;
			sigemptyset(&m);
			posix_spawnattr_getsigdefault(attr, &m);
			for (int s2 = 1; s2 < 64; s2++) if (sigismember(&m, s2) == 1) p.sigign &= ~(1ULL << s2);
		}
		K->probe("spawn_with_attributes");
	}
	// what the tool does after exec is its own business: a wrapper that ignores SIGTERM stays deaf to it whatever it inherited
	for (auto &ti : K->sc->term_immune) if (ti.first == kind && ti.second == p.occ) { p.sigign |= 1ULL << SIGTERM; K->probe("tool_ignores_SIGTERM_itself"); }
	for (auto &sp : K->sc->stops) if (sp.kind == kind && sp.occ == p.occ) { p.stop_at = sp.at; p.stop_len = sp.duration; }
	ev.pid = p.pid; ev.ok = true; ev.group = p.group;
	K->spawns.push_back(ev);
	K->procs.push_back(p);
	if (pidp) *pidp = p.pid;
	K->logf("[%d] spawn%s -> pid %d in=%d/%d out=%d/%d plan=%s", K->step, cmdline.c_str(), p.pid, ev.in_kind, ev.in_pipe, ev.out_kind, ev.out_pipe, mode_name[p.mode]);
	K->driver_phase = kind == LINK ? 3 : 0;
	return 0;
}

static pid_t do_wait(pid_t want, int *st, int opts) {
	K->enter("wait");
	if (K->driver_phase == 0) K->driver_phase = 1;
	for (;;) {
		K->record_abs();
		if (K->alarm_at >= 0 && K->step >= K->alarm_at) {
			K->alarm_at = -1;
			K->probe("SIGALRM_delivered_to_driver_in_wait");
			K->logf("[%d] SIGALRM", K->step);
			if (K->alarm_handler == SIG_DFL) {
				// default action: the driver is killed, nothing of its own runs any more
				K->exit_status = 128 + SIGALRM;
				K->logf("[%d] driver killed by SIGALRM", K->step);
				longjmp(K->jb, 1);
			}
			if (K->alarm_handler != SIG_IGN) {
				K->alarm_handler(SIGALRM);
				if (!K->alarm_restart) { errno = EINTR; K->logf("[%d] wait -> EINTR", K->step); return -1; }
			}
		}
		std::vector<int> z, r;
		bool any = false;
		for (size_t i = 1; i < K->procs.size(); i++) {
			Proc &p = K->procs[i];
			if (p.state == REAPED) continue;
			if (want > 0 && p.pid != want) continue;
			any = true;
			if ((opts & WUNTRACED) && p.state == RUNNING && p.stop_left > 0 && p.stop_unreported) {
				// a stopped child is reported once to a waiter that asked for it
				p.stop_unreported = false;
				if (st) *st = (SIGSTOP << 8) | 0x7f;
				K->logf("[%d] wait -> pid %d stopped (WUNTRACED)", K->step, p.pid);
				return p.pid;
			}
			if (p.state == ZOMBIE) z.push_back((int)i);
		}
		if (!any) { errno = ECHILD; K->logf("[%d] wait -> ECHILD", K->step); return -1; }
		r = K->runnable_children();
		if (!z.empty() && (r.empty() || K->ch.pick(2) == 0)) {
			Proc &p = K->procs[z[K->ch.pick((uint32_t)z.size())]];
			p.state = REAPED;
			if (st) *st = p.wstatus;
			K->logf("[%d] wait -> pid %d wstatus 0x%x%s", K->step, p.pid, p.wstatus, p.stray ? " (stray)" : "");
			if (p.stray) K->probe("wait_returned_unknown_pid");
			if (!p.stray && (p.failed || p.killed_by_driver)) {
				if (p.failed && !K->failure_seen_by_driver) {
					bool others = false;
					for (size_t i = 1; i < K->procs.size(); i++) {
						Proc &q = K->procs[i];
						if (!q.stray && q.state != REAPED && q.group == p.group) others = true;
					}
					if (!others) K->probe("failure_reaped_last_no_kill_needed");
				}
				K->failure_seen_by_driver = true;
				K->driver_phase = 2;
			}
			return p.pid;
		}
		if (r.empty() && K->alarm_at >= 0) { if (K->step < K->alarm_at) K->step = (int)K->alarm_at; continue; }  // nothing can run: time passes until the alarm
		if (r.empty()) K->do_hang("driver blocked in wait, no zombie, every child blocked on pipe I/O");
		K->step_proc(K->procs[r[K->ch.pick((uint32_t)r.size())]]);
	}
}

pid_t __wrap_wait(int *st) { return IN_DRIVER ? do_wait(-1, st, 0) : __real_wait(st); }
pid_t __wrap_waitpid(pid_t pid, int *st, int opts) {
	if (!IN_DRIVER) return __real_waitpid(pid, st, opts);
	return do_wait(pid, st, opts);
}

int __wrap_kill(pid_t pid, int sig) {
	if (!IN_DRIVER) return __real_kill(pid, sig);
	K->enter("kill");
	Proc *p = K->find(pid);
	if (!p || p == &K->driver() || p->state == REAPED || pid <= 0) {
		K->logf("[%d] kill(%d, %d) -> ESRCH", K->step, (int)pid, sig);
		K->violation("C18/I5 signalled-foreign-pid", "kill(" + std::to_string((int)pid) + ") is not an unreaped child of the driver");
		errno = ESRCH;
		return -1;
	}
	if (p->stray) K->violation("C18/I5 signalled-stray", "driver signalled a child it did not spawn");
	K->logf("[%d] kill(%d, %d) state=%d", K->step, (int)pid, sig, p->state);
	if (p->state == ZOMBIE) { K->probe("tool_already_zombie_when_killed"); return 0; }
	if (sig > 0 && sig < 64 && sig != SIGKILL && sig != SIGSTOP && (p->sigign >> sig & 1)) {
		// the tool was started with this signal ignored (inherited through posix_spawn without attributes) and, like
		// every ordinary tool, does not install a handler for it: the signal is discarded
		K->probe("signal_sent_to_child_that_inherited_it_ignored");
		return 0;
	}
	if (sig > 0 && sig < 64 && sig != SIGKILL && sig != SIGSTOP && (p->sigmask >> sig & 1)) {
		// the tool inherited a signal mask that blocks this signal (posix_spawn without attributes keeps the
		// caller's mask) and, like every ordinary tool, never unblocks it: the signal stays pending for ever
		p->blocked_pending |= 1ULL << sig;
		K->probe("signal_sent_to_child_that_inherited_it_blocked");
		return 0;
	}
	if (sig != 0 && !p->pending_sig) p->pending_sig = sig;
	return 0;
}

int __wrap_sigprocmask(int how, const sigset_t *set, sigset_t *old) {
	if (!IN_DRIVER) return __real_sigprocmask(how, set, old);
	K->enter("sigprocmask");
	if (old) {
		sigemptyset(old);
		for (int s2 = 1; s2 < 64; s2++) if (K->sigmask >> s2 & 1) sigaddset(old, s2);
	}
	if (set) {
		uint64_t m = 0;
		for (int s2 = 1; s2 < 64; s2++) if (sigismember(set, s2) == 1) m |= 1ULL << s2;
		m &= ~((1ULL << SIGKILL) | (1ULL << SIGSTOP));
		if (how == SIG_BLOCK) K->sigmask |= m;
		else if (how == SIG_UNBLOCK) K->sigmask &= ~m;
		else if (how == SIG_SETMASK) K->sigmask = m;
		else { errno = EINVAL; return -1; }
	}
	K->logf("[%d] sigprocmask(%d) -> mask %llx", K->step, how, (unsigned long long)K->sigmask);
	return 0;
}
int __wrap_pthread_sigmask(int how, const sigset_t *set, sigset_t *old) {
	if (!IN_DRIVER) return __real_pthread_sigmask(how, set, old);
	return __wrap_sigprocmask(how, set, old) == 0 ? 0 : errno;
}
// the driver's own dispositions: nothing is ever delivered to the driver in the simulation, but
// resetting SIGCHLD to its default undoes an inherited SIG_IGN
int __wrap_sigaction(int sig, const struct sigaction *act, struct sigaction *old) {
	if (!IN_DRIVER) return __real_sigaction(sig, act, old);
	K->enter("sigaction");
	bool ign = sig == SIGCHLD ? K->sigchld_ign : (sig > 0 && sig < 64 && (K->sigign >> sig & 1));
	if (old) { memset(old, 0, sizeof *old); old->sa_handler = ign ? SIG_IGN : SIG_DFL; }
	if (act && sig == SIGALRM) { K->alarm_handler = act->sa_handler; K->alarm_restart = (act->sa_flags & SA_RESTART) != 0; }
	if (act && sig == SIGCHLD) K->sigchld_ign = act->sa_handler == SIG_IGN;
	else if (act && sig > 0 && sig < 64) { if (act->sa_handler == SIG_IGN) K->sigign |= 1ULL << sig; else K->sigign &= ~(1ULL << sig); }
	K->logf("[%d] sigaction(%d)", K->step, sig);
	return 0;
}
typedef void (*sighandler_fn)(int);
sighandler_fn __wrap_signal(int sig, sighandler_fn h);
// with -std=c99 and _POSIX_C_SOURCE glibc maps signal() to __sysv_signal()
sighandler_fn __wrap___sysv_signal(int sig, sighandler_fn h) {
	if (!IN_DRIVER) return __real___sysv_signal(sig, h);
	return __wrap_signal(sig, h);
}
sighandler_fn __wrap_signal(int sig, sighandler_fn h) {
	if (!IN_DRIVER) return __real_signal(sig, h);
	K->enter("signal");
	bool ign = sig == SIGCHLD ? K->sigchld_ign : (sig > 0 && sig < 64 && (K->sigign >> sig & 1));
	sighandler_fn prev = ign ? SIG_IGN : SIG_DFL;
	if (sig == SIGALRM) { K->alarm_handler = h; K->alarm_restart = false; }  // System V semantics: the interrupted call is not restarted
	if (sig == SIGCHLD) K->sigchld_ign = h == SIG_IGN;
	else if (sig > 0 && sig < 64) { if (h == SIG_IGN) K->sigign |= 1ULL << sig; else K->sigign &= ~(1ULL << sig); }
	K->logf("[%d] signal(%d)", K->step, sig);
	return prev;
}

int __wrap_mkstemp(char *tmpl) {
	if (!IN_DRIVER) return __real_mkstemp(tmpl);
	K->enter("mkstemp");
	size_t n = strlen(tmpl);
	if (n < 6 || strcmp(tmpl + n - 6, "XXXXXX") != 0) { errno = EINVAL; return -1; }
	if (int e = K->fault("mkstemp")) { errno = e; K->logf("[%d] mkstemp -> -1 errno %d", K->step, e); return -1; }
	static const char al[] = "abcdefghijklmnopqrstuvwxyzABCDEFGHIJKLMNOPQRSTUVWXYZ0123456789";
	for (;;) {
		uint64_t h = mix(mix(0x6d6b73ULL, (uint64_t)K->sc->pid_base), (uint64_t)K->mkstemp_n++);
		for (int i = 0; i < 6; i++) { tmpl[n - 6 + i] = al[h % 62]; h /= 62; }
		if (!K->paths.count(tmpl)) break;
	}
	int ino = (int)K->inodes.size();
	K->inodes.emplace_back();
	K->inodes[ino].by_mkstemp = true;
	K->inodes[ino].creator = 1;
	K->paths[tmpl] = ino;
	K->mkstemp_paths.push_back(tmpl);
	Proc &d = K->driver();
	int fd = lowest_free_fd(d);
	d.fds[fd] = FdEnt{FD_FILE, -1, false};
	K->logf("[%d] mkstemp -> %s fd %d", K->step, tmpl, fd);
	return fd;
}

int __wrap_unlink(const char *path) {
	if (!IN_DRIVER) return __real_unlink(path);
	K->enter("unlink");
	{
		// unlink removes the name it is given: a symbolic link itself, never what it points to
		auto sl = K->symlinks.find(path);
		if (sl != K->symlinks.end()) { K->symlinks.erase(sl); K->logf("[%d] unlink(%s) (symbolic link)", K->step, path); return 0; }
	}
	auto it = K->paths.find(path);
	if (it == K->paths.end()) { errno = ENOENT; K->logf("[%d] unlink(%s) ENOENT", K->step, path); return -1; }
	K->paths.erase(it);
	K->logf("[%d] unlink(%s)", K->step, path);
	return 0;
}

int __wrap_access(const char *path, int mode) {
	if (!IN_DRIVER) return __real_access(path, mode);
	K->enter("access");
	(void)mode;
	bool ex = K->paths.count(K->resolve(path)) != 0 || K->exec_lookup(path) >= 0 || K->exec_lookup(path) == -2;
	K->logf("[%d] access(%s) -> %s", K->step, path, ex ? "0" : "ENOENT");
	if (ex) return 0;
	errno = ENOENT;
	return -1;
}

static int sim_stat(const char *path, struct stat *st, bool follow) {
	K->enter(follow ? "stat" : "lstat");
	memset(st, 0, sizeof *st);
	std::string p = path;
	if (!follow && K->symlinks.count(p)) { st->st_mode = S_IFLNK | 0777; st->st_size = (off_t)K->symlinks[p].size(); st->st_nlink = 1; return 0; }
	auto it = K->paths.find(K->resolve(p));
	if (it != K->paths.end()) { st->st_mode = S_IFREG | 0644; st->st_size = (off_t)K->inodes[it->second].data.size(); st->st_nlink = 1; st->st_ino = (ino_t)(it->second + 2); return 0; }
	int k = K->exec_lookup(p);
	if (k == -2) { st->st_mode = S_IFDIR | 0755; st->st_nlink = 2; return 0; }
	if (k >= 0) { st->st_mode = S_IFREG | 0755; st->st_nlink = 1; return 0; }
	errno = ENOENT;
	return -1;
}
int __wrap_lstat(const char *path, struct stat *st) { return IN_DRIVER ? sim_stat(path, st, false) : __real_lstat(path, st); }
int __wrap_stat(const char *path, struct stat *st) { return IN_DRIVER ? sim_stat(path, st, true) : __real_stat(path, st); }

char *__wrap_getenv(const char *name) {
	if (!IN_DRIVER) return __real_getenv(name);
	// the environment the driver is started in: PATH with the tools' directory, preceded by a directory of decoys when the scenario has any
	static std::string path;
	if (strcmp(name, "PATH") == 0) { path = K->sc->path_decoys.empty() ? "/sim/tools" : "/sim/decoy:/sim/tools"; K->probe("driver_read_PATH"); return &path[0]; }
	return nullptr;
}

// the path the driver was executed as (AT_EXECFN): what the caller passed to execve - argv[0] if it names a path,
// otherwise the PATH entry it was found in; it need not be where the binary is (a symbolic link such as /usr/bin/cc)
unsigned long __wrap_getauxval(unsigned long type) {
	if (!IN_DRIVER) return __real_getauxval(type);
	if (type != AT_EXECFN) return __real_getauxval(type);
	static std::string fn;
	const std::string &a0 = K->sc->argv[0];
	fn = a0.find('/') != std::string::npos ? a0 : "/usr/local/bin/" + (a0.empty() ? std::string("cproc") : a0);
	K->probe("driver_read_AT_EXECFN");
	return (unsigned long)(uintptr_t)fn.c_str();
}

// alarm(): SIGALRM for the driver at a simulated time; delivered while the driver is blocked in wait()
unsigned __wrap_alarm(unsigned s) {
	if (!IN_DRIVER) return __real_alarm(s);
	K->enter("alarm");
	unsigned left = K->alarm_at >= 0 && K->alarm_at > K->step ? (unsigned)((K->alarm_at - K->step + 39) / 40) : 0;
	K->alarm_at = s ? K->step + 40L * s : -1;
	K->logf("[%d] alarm(%u)", K->step, s);
	return left;
}

// sleeping is a scheduling point and costs simulated time; nothing else
int __wrap_nanosleep(const struct timespec *a, struct timespec *b) { if (!IN_DRIVER) return __real_nanosleep(a, b); K->enter("sleep"); K->probe("driver_slept"); return 0; }
int __wrap_clock_nanosleep(clockid_t c, int fl, const struct timespec *a, struct timespec *b) { if (!IN_DRIVER) return __real_clock_nanosleep(c, fl, a, b); K->enter("sleep"); K->probe("driver_slept"); return 0; }
int __wrap_usleep(useconds_t u) { if (!IN_DRIVER) return __real_usleep(u); K->enter("sleep"); K->probe("driver_slept"); return 0; }
unsigned __wrap_sleep(unsigned u) { if (!IN_DRIVER) return __real_sleep(u); K->enter("sleep"); K->probe("driver_slept"); return 0; }

ssize_t __wrap_readlink(const char *path, char *buf, size_t size) {
	if (!IN_DRIVER) return __real_readlink(path, buf, size);
	K->enter("readlink");
	if (strcmp(path, "/proc/self/exe") != 0) { errno = EINVAL; return -1; }
	if (K->sc->readlink_fail) { errno = ENOENT; K->fire("coin:readlink_fail"); return -1; }
	const char *self = "/sim/bin/cproc";
	size_t n = strlen(self);
	if (n > size) n = size;
	memcpy(buf, self, n);
	return (ssize_t)n;
}

int __wrap_atexit(void (*fn)(void)) {
	if (!IN_DRIVER) return 0;
	K->atexit_handlers.push_back(fn);
	return 0;
}

void __wrap_exit(int status) {
	if (K && K->in_driver) {
		if (!K->exiting) {
			K->exiting = true;
			K->exit_status = status & 0xff;
			K->logf("[%d] exit(%d)", K->step, status);
			// exit() runs the handlers registered with atexit, last first
			while (!K->atexit_handlers.empty()) {
				void (*fn)(void) = K->atexit_handlers.back();
				K->atexit_handlers.pop_back();
				fn();
			}
		}
		longjmp(K->jb, 1);
	}
	fflush(nullptr);
	_exit(status);
}

void __wrap__exit(int status) {
	if (K && K->in_driver) {
		// _exit: no atexit handlers
		K->exit_status = status & 0xff;
		K->logf("[%d] _exit(%d)", K->step, status);
		longjmp(K->jb, 1);
	}
	__real__exit(status);
}

// what fresh memory contains is part of the scenario, never the worker's history
static void heap_fill(void *p, size_t n) {
	static const int pat[3] = {0x00, 0xff, 0xa5};
	memset(p, pat[(unsigned)K->sc->heap_fill % 3], n);
}
void *__wrap_malloc(size_t n) {
	if (K && K->in_driver) {
		if (int e = K->fault("alloc")) { errno = e; return nullptr; }
		void *p = __real_malloc(n ? n : 1);
		if (p) heap_fill(p, malloc_usable_size(p));  // the whole block: its slack is copied by a later realloc
		return p;
	}
	return __real_malloc(n);
}
void *__wrap_realloc(void *p, size_t n) {
	if (K && K->in_driver) {
		if (int e = K->fault("alloc")) { errno = e; return nullptr; }
		// always move: the new block is filled first, then the old contents are copied over
		void *q = __real_malloc(n ? n : 1);
		if (!q) return nullptr;
		heap_fill(q, malloc_usable_size(q));
		if (p) {
			size_t old = malloc_usable_size(p);
			memcpy(q, p, old < n ? old : n);
			free(p);
		}
		return q;
	}
	return __real_realloc(p, n);
}
char *__wrap_strdup(const char *s) {
	if (K && K->in_driver) {
		if (int e = K->fault("alloc")) { errno = e; return nullptr; }
	}
	return __real_strdup(s);
}

}  // extern "C"

// ------------------------------------------------------------ one run
static std::string join(const std::vector<std::string> &v) {
	std::string s;
	for (auto &a : v) { if (!s.empty()) s += ' '; s += a.empty() ? "''" : a; }
	return s;
}


// open known findings (KNOWN_FINDINGS.txt) are passed in by the runner; a
// finding that is not listed there is reported as an ordinary violation
static bool known_enabled(const char *id) {
	const char *k = getenv("SIMA_KNOWN");
	if (!k) return false;
	std::string s = std::string(",") + k + ",";
	return s.find(std::string(",") + id + ",") != std::string::npos;
}

RunResult simulate(const Scenario &sc) {
	static Kernel kern;
	K = &kern;
	K->sc = &sc;
	K->ch.explicit_list = sc.explicit_choices;
	K->ch.list = sc.choices;
	K->ch.rng = Rng(sc.sched_seed);
	K->next_pid = sc.pid_base;
	const Config &cfg = config();

	Proc drv;
	drv.pid = 1;
	if (!sc.stdin_closed) drv.fds[0] = FdEnt{FD_TTYIN, -1, false};
	K->sigchld_ign = sc.sigchld_ignored;
	if (sc.sigterm_inherited == 1) K->sigign |= 1ULL << SIGTERM;
	if (sc.sigterm_inherited == 2) K->sigmask |= 1ULL << SIGTERM;
	drv.fds[1] = FdEnt{FD_TTYOUT, -1, false};
	drv.fds[2] = FdEnt{FD_TTYERR, -1, false};
	K->procs.push_back(drv);
	for (auto &f : sc.files) {
		int ino = (int)K->inodes.size();
		K->inodes.emplace_back();
		K->inodes[ino].data = initial_content(f.first, f.second);
		K->inodes[ino].complete = true;
		K->paths[f.first] = ino;
	}
	if (sc.output_symlink) {
		// every output name the command line implies exists beforehand as a symbolic link to a file elsewhere
		Expect ex0 = model(cfg, sc.argv, !sc.readlink_fail);
		std::vector<std::string> outs;
		if (!ex0.usage) {
			for (auto &a : ex0.arts) if (!a.path.empty() && !is_tmp(a.path)) outs.push_back(a.path);
			if (ex0.link) outs.push_back(ex0.link_out);
		}
		for (auto &o : outs) {
			bool is_input = false;
			for (auto &f : sc.files) if (f.first == o) is_input = true;
			if (is_input || K->symlinks.count(o)) continue;
			std::string target = "elsewhere/" + std::to_string(K->symlinks.size()) + ".out";
			K->symlinks[o] = target;
			K->symlink_of[target] = o;
			K->logf("SYMLINK %s -> %s", o.c_str(), target.c_str());
			int ino = (int)K->inodes.size();
			K->inodes.emplace_back();
			K->inodes[ino].complete = true;  // an older build's result
			K->paths[target] = ino;
		}
	}
	if (sc.stray_exit_step >= 0) {
		Proc s;
		s.pid = sc.pid_base - 1;
		s.stray = true;
		s.countdown = sc.stray_exit_step;
		K->procs.push_back(s);
	}
	K->logf("argv: %s", join(sc.argv).c_str());

	// argv laid out as execve does: pointer array, NULL, envp pointers, NULL
	std::vector<char *> vec;
	std::vector<std::string> store = sc.argv;
	static const char *fake_env[] = {"HOME=/root", "SIMENV=env.c", "PATH=/sim/bin", nullptr};
	for (auto &s : store) vec.push_back(&s[0]);
	vec.push_back(nullptr);
	for (const char **e = fake_env; *e; e++) vec.push_back(const_cast<char *>(*e));
	vec.push_back(nullptr);
	char **av;
	bool exact = getenv("SIMA_EXACT_ARGV") != nullptr;
	if (exact) {
		// sanitized build: argv in an exactly sized heap block so overruns are reported
		av = (char **)__real_malloc((store.size() + 1) * sizeof(char *));
		for (size_t i = 0; i <= store.size(); i++) av[i] = vec[i];
	} else av = vec.data();

	int how = setjmp(K->jb);
	if (how == 0) {
		K->in_driver = true;
		int r = cproc_driver_main((int)sc.argv.size(), av);
		K->logf("[%d] main returned %d", K->step, r);
		__wrap_exit(r);  // returning from main is exit(r)
	}
	K->in_driver = false;

	// "cannot be started" means it never was: a failed attempt that the driver repeated with success (a retry after
	// EAGAIN) is not a failure of the stage, and the attempt is not one of the spawns the model counts
	{
		std::vector<SpawnEvent> kept;
		int first_real_failure = -1;
		for (size_t i = 0; i < K->spawns.size(); i++) {
			const SpawnEvent &e = K->spawns[i];
			bool superseded = false;
			if (!e.ok) for (size_t k = i + 1; k < K->spawns.size(); k++) if (K->spawns[k].ok && K->spawns[k].kind == e.kind && K->spawns[k].occ == e.occ && K->spawns[k].argv == e.argv) superseded = true;
			if (superseded) { K->probe("failed_spawn_repeated_with_success"); continue; }
			if (!e.ok && first_real_failure < 0) first_real_failure = e.step;
			kept.push_back(e);
		}
		if (kept.size() != K->spawns.size()) {
			K->spawns.swap(kept);
			// the first failure is now the first one that stayed a failure (a tool's death or an attempt never repeated)
			int fs = first_real_failure;
			for (size_t i = 1; i < K->procs.size(); i++) if (!K->procs[i].stray && K->procs[i].failed && K->procs[i].death_step >= 0 && (fs < 0 || K->procs[i].death_step < fs)) fs = K->procs[i].death_step;
			K->first_failure_step = fs;
		}
	}

	RunResult res;
	res.status = K->exit_status;
	res.hang = K->hang;
	res.steps = K->step;
	res.nspawn = (int)K->spawns.size();
	res.choices = K->ch.made;

	// ------------------------------------------------ oracles
	std::vector<std::string> &V = K->violations;
	auto viol = [&](const std::string &cls, const std::string &d) { K->violation(cls, d); };
	bool relaxed = false;
	for (auto &f : sc.faults) if (f.call == "mkstemp" || f.call == "alloc") relaxed = true;
	bool relaxed_fired = false;
	for (auto &f : K->fired) if (f == "fault:mkstemp" || f == "fault:alloc") relaxed_fired = true;

	Expect ex = model(cfg, sc.argv, !sc.readlink_fail);
	bool any_tool_failure = false, link_failure = false, nodrain = false;
	for (size_t i = 1; i < K->procs.size(); i++) {
		Proc &p = K->procs[i];
		if (p.stray) continue;
		if (p.failed) { any_tool_failure = true; if (p.kind == LINK) link_failure = true; }
		if (p.mode == M_NODRAIN) nodrain = true;
	}
	bool pipeline_failure = false;
	for (auto &e : K->spawns) if (!e.ok) { if (e.kind == LINK) link_failure = true; else pipeline_failure = true; }
	for (size_t i = 1; i < K->procs.size(); i++) if (!K->procs[i].stray && K->procs[i].failed && K->procs[i].kind != LINK) pipeline_failure = true;
	// pipe/fcntl/file_actions faults make a stage unstartable
	for (auto &f : K->fired) if (f == "fault:pipe" || f == "fault:fcntl" || f == "fault:fa_init" || f == "fault:fa_adddup2") pipeline_failure = true;
	bool any_failure = any_tool_failure || pipeline_failure || link_failure;

	for (auto &f : K->fired) if (f == "natural:directory_executed") { viol("C17/tool-not-found-through-PATH", "the driver tried to execute a directory that an earlier PATH entry holds under the tool's name; posix_spawnp skips it and finds the tool"); break; }
	bool immune_on_tty = false;
	for (size_t i = 1; i < K->procs.size(); i++) {
		Proc &p = K->procs[i];
		if (p.stray || p.state != RUNNING || !(p.sigign >> SIGTERM & 1) || p.phase != PH_READ) continue;
		auto f0 = p.fds.find(0);
		if (f0 != p.fds.end() && f0->second.kind == FD_TTYIN && sc.stdin_stays_open) immune_on_tty = true;
	}
	if (K->hang && K->tty_wait && immune_on_tty) {
		// a tool that ignores SIGTERM by its own choice and waits for somebody to type: nothing short of SIGKILL ends it, and
		// the property's failure modes do not include such tools - not judged
		K->probe("run_ended_with_a_SIGTERM_deaf_tool_waiting_for_the_terminal");
	} else if (K->hang && K->tty_wait && !any_failure && !K->failure_seen_by_driver) {
		// a tool is waiting for somebody to type on a terminal that stays open and nothing has failed: the driver
		// waits with it, rightly, for as long as it takes - not a hang, and nothing further to judge in this run
		K->probe("run_ended_waiting_for_terminal_input");
	} else if (K->hang) {
		(void)nodrain;
		viol("C18/I6 hang", K->hang_why);
	} else if (ex.usage) {
		// C17.1: usage error <=> exit 2 and nothing was run
		if (K->exit_status != 2) viol("C17/usage-not-refused", "model: usage error (" + ex.why + "), driver exit status " + std::to_string(K->exit_status));
		if (!K->spawns.empty()) viol("C17/spawn-before-usage-error", "model: usage error (" + ex.why + "), but " + std::to_string(K->spawns.size()) + " process(es) were started, first:" + join(K->spawns[0].argv));
	} else if (relaxed && relaxed_fired) {
		// driver's own resource exhaustion: non-deciding configuration
		if (K->exit_status == 0) K->probe("relaxed:status0_after_driver_resource_fault");
	} else {
		// ---- C17.2: spawn list equals the model's, as far as the run got
		std::map<std::string, std::string> tmpmap;  // placeholder -> actual path
		size_t ns = K->spawns.size();
		if (!any_failure && ns != ex.spawns.size())
			viol("C17/spawn-count", "expected " + std::to_string(ex.spawns.size()) + " spawns, saw " + std::to_string(ns));
		if (ns > ex.spawns.size()) viol("C17/spawn-count", "more spawns than the model allows: " + std::to_string(ns) + " > " + std::to_string(ex.spawns.size()));
		int prev_out_pipe = -1;
		for (size_t i = 0; i < ns && i < ex.spawns.size(); i++) {
			const SpawnEvent &ev = K->spawns[i];
			const ExpSpawn &es = ex.spawns[i];
			std::string tag = std::string("stage=") + stage_name[es.stage];
			bool same = ev.argv.size() == es.argv.size();
			for (size_t k = 0; same && k < ev.argv.size(); k++) {
				if (is_tmp(es.argv[k])) {
					bool is_mk = false;
					for (auto &m : K->mkstemp_paths) if (m == ev.argv[k]) is_mk = true;
					auto it = tmpmap.find(es.argv[k]);
					if (!is_mk) same = false;
					else if (it == tmpmap.end()) {
						for (auto &kv : tmpmap) if (kv.second == ev.argv[k]) same = false;  // one temporary per input
						tmpmap[es.argv[k]] = ev.argv[k];
					} else if (it->second != ev.argv[k]) same = false;
				} else if (ev.argv[k] != es.argv[k]) same = false;
			}
			if (!same) {
				std::string want;
				for (auto &a : es.argv) { want += ' '; want += is_tmp(a) ? "<tmp" + a.substr(2) + ">" : a; }
				bool d6 = false;
				if (ex.d6 && known_enabled("D6") && es.stage == COMPILE && ev.argv.size() == es.argv.size() + 2) {
					// known finding D6: exactly "-o <base>.qbe" inserted before the input name / at the end
					std::vector<std::string> alt = es.argv;
					const ExpArtefact *art = nullptr;
					for (auto &a : ex.arts) if (a.input == es.input) art = &a;
					if (art) {
						std::string b = art->src;
						size_t sl = b.rfind('/');
						if (sl != std::string::npos) b = b.substr(sl + 1);
						size_t dot = b.rfind('.');
						if (dot != std::string::npos) b = b.substr(0, dot);
						b += ".qbe";
						size_t at = alt.size();
						if (es.stdin_driver && art->src != "-") at--;
						alt.insert(alt.begin() + at, {"-o", b});
						if (alt == ev.argv) d6 = true;
					}
				}
				if (d6) res.known.push_back("D6");
				else viol("C17/argv " + tag, "expected:" + want + "  got: " + join(ev.argv));
			}
			// provenance
			bool in_ok = es.stdin_driver ? ev.in_kind == (sc.stdin_closed ? FD_NONE : FD_TTYIN) : (ev.in_kind == FD_PIPER && ev.in_pipe == prev_out_pipe && prev_out_pipe >= 0);
			bool out_ok = es.stdout_driver ? ev.out_kind == FD_TTYOUT : ev.out_kind == FD_PIPEW;
			if (ev.ok || ev.err == 0) {
				if (!in_ok) viol("C17/wiring-stdin " + tag, "stdin of " + join(ev.argv) + " is kind " + std::to_string(ev.in_kind) + " pipe " + std::to_string(ev.in_pipe));
				if (!out_ok) viol("C17/wiring-stdout " + tag, "stdout of " + join(ev.argv) + " is kind " + std::to_string(ev.out_kind));
			}
			prev_out_pipe = ev.out_kind == FD_PIPEW ? ev.out_pipe : -1;
			if (!ev.ok) break;
		}

		if (!any_failure) {
			// ---- I8 / C17.3, C17.4: status 0, artefacts present, complete and with the right content
			if (K->exit_status != 0) viol("C18/I8 status-nonzero-without-failure", "every tool succeeded, driver exit status " + std::to_string(K->exit_status));
			std::map<std::string, Content> produced;  // by placeholder or path
			Content exp_stdout;
			std::set<std::string> expected_paths;
			for (auto &a : ex.arts) {
				Content c = a.src == "-" ? Content() : Content();
				if (a.src == "-") { for (int i = 0; i < sc.stdin_units; i++) c.push_back(mix(0x57444eULL, (uint64_t)i)); }
				else {
					bool found = false;
					for (auto &f : sc.files) if (f.first == a.src) { c = initial_content(f.first, f.second); found = true; }
					if (!found) continue;
				}
				for (int s : a.stages) c = transform(s, c);
				if (a.path.empty()) {
					if (ex.d6 && known_enabled("D6") && !a.stages.empty() && a.stages.back() == COMPILE) {
						// D6: the driver writes <base>.qbe instead of stdout
						std::string b = a.src;
						size_t sl = b.rfind('/');
						if (sl != std::string::npos) b = b.substr(sl + 1);
						size_t dot = b.rfind('.');
						if (dot != std::string::npos) b = b.substr(0, dot);
						b += ".qbe";
						auto it = K->paths.find(b);
						if (it != K->paths.end() && K->inodes[it->second].data == c && K->inodes[it->second].complete) {
							expected_paths.insert(b);
							continue;
						}
					}
					exp_stdout.insert(exp_stdout.end(), c.begin(), c.end());
				}
				else if (is_tmp(a.path)) produced[a.path] = c;
				else {
					expected_paths.insert(a.path);
					expected_paths.insert(K->resolve(a.path));
					// two inputs that derive the same output name: pipelines run one after the other, the later one's result stays
					bool overwritten = false;
					for (auto &b2 : ex.arts) if (&b2 > &a && b2.path == a.path) overwritten = true;
					if (overwritten) continue;
					auto it = K->paths.find(K->resolve(a.path));
					if (it == K->paths.end()) viol("C17/output-missing", "expected output " + a.path + " does not exist");
					else if (!K->inodes[it->second].complete || K->inodes[it->second].data != c)
						viol("C17/dataflow", "content of " + a.path + " is not the stages' transforms applied in pipeline order");
				}
			}
			if (ex.link) {
				std::vector<Content> objs;
				bool okc = true;
				for (auto &o : ex.link_objs) {
					if (is_tmp(o)) { auto it = produced.find(o); if (it == produced.end()) okc = false; else objs.push_back(it->second); }
					else {
						bool found = false;
						for (auto &f : sc.files) if (f.first == o) { objs.push_back(initial_content(f.first, f.second)); found = true; }
						if (!found) okc = false;
					}
				}
				expected_paths.insert(ex.link_out);
				expected_paths.insert(K->resolve(ex.link_out));
				auto it = K->paths.find(K->resolve(ex.link_out));
				if (it == K->paths.end()) viol("C17/output-missing", "expected executable " + ex.link_out + " does not exist");
				else if (okc && (!K->inodes[it->second].complete || K->inodes[it->second].data != link_transform(objs)))
					viol("C17/dataflow", "content of " + ex.link_out + " is not link(objects in command-line order)");
			}
			if (K->tty_out != exp_stdout) viol("C17/dataflow", "bytes on the driver's standard output are not what the model's pipelines produce");
			// nothing else was written
			for (auto &kv : K->paths) {
				bool initial = false;
				for (auto &f : sc.files) if (f.first == kv.first) initial = true;
				bool mk = K->inodes[kv.second].by_mkstemp;
				if (K->symlink_of.count(kv.first)) initial = true;  // what an output name pointed to before the run
				if (!initial && !mk && !expected_paths.count(kv.first)) viol("C17/unexpected-file", "file " + kv.first + " was created but the model names no such output");
				if (initial && K->inodes[kv.second].data != initial_content(kv.first, 0) ) {
					// an input was overwritten?
					for (auto &f : sc.files) if (f.first == kv.first && !expected_paths.count(kv.first) && K->inodes[kv.second].data != initial_content(f.first, f.second))
						viol("C17/input-clobbered", "input " + kv.first + " was overwritten");
				}
			}
			for (auto &f : sc.files) if (!K->paths.count(f.first) && !expected_paths.count(f.first)) viol("C17/input-removed", "input " + f.first + " was removed");
		} else {
			// ---- failure path (C18)
			if (K->exit_status == 0) viol("C18/I1 status-zero-after-failure", "a stage failed (" + (K->fired.empty() ? std::string("?") : K->fired.back()) + "), driver exit status 0");
			if (pipeline_failure) {
				for (auto &e : K->spawns)
					if (e.kind == LINK && e.step > K->first_failure_step) viol("C18/I2 link-after-failure", "link step started although a pipeline failed");
				// I3: nothing created by a failed pipeline survives
				std::set<int> failed_groups;
				for (size_t i = 1; i < K->procs.size(); i++) if (!K->procs[i].stray && K->procs[i].failed) failed_groups.insert(K->procs[i].group);
				bool spawnfail = false;
				for (auto &e : K->spawns) if (!e.ok && e.kind != LINK) spawnfail = true;
				for (auto &f : K->fired) if (f == "fault:pipe" || f == "fault:fcntl" || f == "fault:fa_init" || f == "fault:fa_adddup2") spawnfail = true;
				if (spawnfail) {
					int lastg = -1;
					for (auto &e : K->spawns) if (e.ok) lastg = e.group;
					// the pipeline under construction is the one whose processes were spawned after the previous pipeline completed
					if (lastg >= 0) {
						bool complete_group = false;
						for (auto &e : K->spawns) if (e.ok && e.group == lastg && e.out_kind != FD_PIPEW) complete_group = true;
						if (!complete_group) failed_groups.insert(lastg);
					}
				}
				for (auto &kv : K->paths) {
					Inode &in = K->inodes[kv.second];
					Proc *c = K->find(in.creator);
					if (c && c != &K->driver() && failed_groups.count(c->group) && !in.by_mkstemp) {
						// an output written through a symbolic link: what has to go is the name the driver was given
						auto so = K->symlink_of.find(kv.first);
						if (so != K->symlink_of.end() && !K->symlinks.count(so->second)) continue;
						viol("C18/I3 output-left", "output " + (so != K->symlink_of.end() ? so->second + " -> " : std::string()) + kv.first + " of the failed pipeline still exists");
					}
				}
			}
		}
	}
	if (!ex.usage || !K->spawns.empty()) {
		// I4: no temporaries at exit, in every outcome (not for the relaxed configuration)
		if (!K->hang && !(relaxed && relaxed_fired))
			for (auto &m : K->mkstemp_paths) if (K->paths.count(m)) viol(any_failure ? (link_failure && !pipeline_failure ? "C18/I7 temp-left-after-link-failure" : "C18/I4 temp-left-after-failure") : "C18/I4 temp-left-after-success", "temporary " + m + " still exists at driver exit");
		// I5: every spawned child reaped (not judged when the driver itself ran out of memory or temporaries: non-deciding)
		if (relaxed && relaxed_fired) {
			for (size_t i = 1; i < K->procs.size(); i++) if (!K->procs[i].stray && K->procs[i].state != REAPED) K->probe("relaxed:children_left_after_driver_resource_fault");
		} else if (!K->hang)
			for (size_t i = 1; i < K->procs.size(); i++) {
				Proc &p = K->procs[i];
				if (p.stray) continue;
				if (p.state == RUNNING) viol("C18/I5 child-left-running", std::string(stage_name[p.kind]) + " pid " + std::to_string(p.pid) + " still running at driver exit");
				else if (p.state == ZOMBIE) viol("C18/I5 child-not-reaped", std::string(stage_name[p.kind]) + " pid " + std::to_string(p.pid) + " not reaped at driver exit");
			}
	}
	if (K->exit_status != 0 && K->exit_status != 1 && K->exit_status != 2 && !K->hang) viol("C18/status-range", "driver exit status " + std::to_string(K->exit_status));

	// probes on the final state
	{
		int nfailed = 0;
		std::map<int, int> per_group;
		for (size_t i = 1; i < K->procs.size(); i++) if (!K->procs[i].stray && K->procs[i].failed) { nfailed++; per_group[K->procs[i].group]++; }
		for (auto &g : per_group) if (g.second >= 2) K->probe("two_tools_failed_in_one_pipeline");
		for (size_t i = 1; i < K->procs.size(); i++) if (K->procs[i].killed_by_driver) K->probe("driver_killed_a_running_stage");
		if (sc.stray_exit_step >= 0) K->probe("stray_child_present");
		if (relaxed_fired) K->probe("relaxed:driver_resource_fault_fired");
	}

	res.fired = K->fired;
	res.probes = K->probes;
	for (auto &pl : sc.plans) if (pl.mode) res.configured.push_back(std::string("tool:") + mode_name[pl.mode]);
	for (auto &f : sc.faults) res.configured.push_back("fault:" + f.call);
	for (auto &m : sc.missing_tools) { (void)m; res.configured.push_back("fault:tool_missing"); }
	if (sc.readlink_fail) res.configured.push_back("coin:readlink_fail");
	res.absstates.assign(K->absstates.begin(), K->absstates.end());
	res.nontrivial = !K->spawns.empty();
	// each check reports the classes of its own property only; classes of the
	// other driver property seen on the way are counted, not reported
	for (auto &v : V) {
		size_t tab = v.find('\t');
		std::string cls = v.substr(0, tab);
		bool mine = sc.prop.empty() || cls.compare(0, sc.prop.size() + 1, sc.prop + "/") == 0 || cls.compare(0, 2, "C1") != 0;
		if (mine) {
			if (res.verdict.empty()) { res.verdict = cls; res.detail = v.substr(tab + 1); }
		} else res.other.push_back(cls);
	}
	{
		uint64_t h = 0x5150;
		for (auto &e : K->spawns) {
			for (auto &a : e.argv) {
				bool mk = false;
				for (auto &m : K->mkstemp_paths) if (m == a) mk = true;
				h = hash_str(mk ? std::string("<tmp>") : a, h);
			}
			h = mix(h, (uint64_t)(e.in_kind * 16 + e.out_kind));
			h = mix(h, e.ok ? 1 : 2);
		}
		res.spawn_hash = mix(h, (uint64_t)K->exit_status);
	}
	{
		// final file system, for the calibration self-test and for reading replays
		std::string fsl = "FS:";
		for (auto &kv : K->paths) {
			bool initial = false;
			for (auto &f : sc.files) if (f.first == kv.first) initial = true;
			if (!initial) fsl += " " + kv.first;
		}
		for (auto &kv : K->symlinks) fsl += " " + kv.first + "@";  // a symbolic link that is still there
		K->logf("%s", fsl.c_str());
		K->logf("STATUS: %d", K->exit_status);
	}
	res.log = K->log;
	res.log_hash = hash_str(K->log);
	return res;
}

}  // namespace sa
