// Executable reference model of cproc(1): the oracle of C17.
// Written from cproc.1, the usage string and the statement of property C17
// (DESIGN.md Appendix A) -- deliberately NOT from driver.c.
#include "sim.hpp"

namespace sa {

namespace {
enum Type { T_C, T_CHDR, T_CPPOUT, T_QBE, T_ASM, T_ASMPP, T_OBJ, T_LIB, T_NONE };

struct In { std::string name; Type type; };

bool ends_with(const std::string &s, const char *suf) {
	size_t n = strlen(suf);
	return s.size() >= n && s.compare(s.size() - n, n, suf) == 0;
}

Type by_suffix(const std::string &a) {
	size_t dot = a.rfind('.');
	if (dot == std::string::npos) return T_OBJ;
	std::string e = a.substr(dot + 1);
	if (e == "c") return T_C;
	if (e == "h") return T_CHDR;
	if (e == "i") return T_CPPOUT;
	if (e == "qbe") return T_QBE;
	if (e == "s") return T_ASM;
	if (e == "S") return T_ASMPP;
	return T_OBJ;
}

std::vector<int> stages_of(Type t) {
	switch (t) {
	case T_C: return {PREPROCESS, COMPILE, CODEGEN, ASSEMBLE, LINK};
	case T_CPPOUT: return {COMPILE, CODEGEN, ASSEMBLE, LINK};
	case T_QBE: return {CODEGEN, ASSEMBLE, LINK};
	case T_ASM: return {ASSEMBLE, LINK};
	case T_ASMPP: return {PREPROCESS, ASSEMBLE, LINK};
	case T_CHDR: return {PREPROCESS};
	default: return {LINK};
	}
}

std::string replace_suffix(const std::string &name, const char *ext) {
	std::string b = name;
	size_t slash = b.rfind('/');
	if (slash != std::string::npos) b = b.substr(slash + 1);
	size_t dot = b.rfind('.');
	if (dot != std::string::npos) b = b.substr(0, dot);
	return b + "." + ext;
}

void split_commas(const std::string &s, std::vector<std::string> &out) {
	size_t p = 0;
	for (;;) {
		size_t c = s.find(',', p);
		if (c == std::string::npos) { out.push_back(s.substr(p)); return; }
		out.push_back(s.substr(p, c - p));
		p = c + 1;
	}
}
}  // namespace

Expect model(const Config &cfg, const std::vector<std::string> &argv, bool readlink_ok) {
	Expect ex;
	int mode = LINK;
	Type lang = T_NONE;
	std::vector<In> inputs;
	std::vector<std::string> pp, as, ld;
	bool have_out = false, nostdlib = false;
	std::string out;
	auto usage = [&](const char *why) { ex.usage = true; ex.why = why; return ex; };

	size_t n = argv.size();
	for (size_t i = 1; i < n; i++) {
		const std::string &a = argv[i];
		if (a == "-" || a.empty() || a[0] != '-') {
			Type t;
			if (lang != T_NONE) t = lang;
			else if (a == "-") return usage("standard input without -x");
			else t = by_suffix(a);
			inputs.push_back({a, t});
			continue;
		}
		// option with a value, attached or detached
		auto value = [&](std::string &v) -> bool {
			if (a.size() > 2) { v = a.substr(2); return true; }
			if (i + 1 >= n) return false;
			v = argv[++i];
			return true;
		};
		auto detached = [&](std::string &v) -> bool {
			if (i + 1 >= n) return false;
			v = argv[++i];
			return true;
		};
		std::string v;
		if (a == "-c") mode = ASSEMBLE;
		else if (a == "-S") mode = CODEGEN;
		else if (a == "-E") mode = PREPROCESS;
		else if (a == "-emit-qbe") mode = COMPILE;
		else if (a == "-M" || a == "-MM") { pp.push_back(a); mode = PREPROCESS; }
		else if (a == "-MD" || a == "-MMD") pp.push_back(a);
		else if (a == "-MF" || a == "-MT") {
			if (!detached(v)) return usage("missing argument");
			pp.push_back(a); pp.push_back(v);
		}
		else if (a == "-include" || a == "-isystem" || a == "-idirafter" || a == "-iquote") {
			if (!detached(v)) return usage("missing argument");
			pp.push_back(a); pp.push_back(v);
		}
		else if (a.compare(0, 5, "-std=") == 0) pp.push_back(a);
		else if (a == "-nostdinc") pp.push_back(a);
		else if (a == "-nostdlib") nostdlib = true;
		else if (a == "-static") ld.push_back(a);
		else if (a == "-pthread") { ld.push_back("-l"); ld.push_back("pthread"); }
		else if (a == "-pipe" || a == "-pedantic") ;
		else if (a == "-P") pp.push_back("-P");
		else if (a == "-s") ld.push_back("-s");
		else if (a == "-v") ;
		else if (a[1] == 'D' || a[1] == 'U' || a[1] == 'I') {
			if (!value(v)) return usage("missing argument");
			pp.push_back(a.substr(0, 2)); pp.push_back(v);
		}
		else if (a[1] == 'L') {
			if (!value(v)) return usage("missing argument");
			ld.push_back("-L"); ld.push_back(v);
		}
		else if (a[1] == 'l') {
			if (!value(v)) return usage("missing argument");
			inputs.push_back({v, T_LIB});
		}
		else if (a[1] == 'o') {
			if (!value(v)) return usage("missing argument");
			out = v; have_out = true;
		}
		else if (a[1] == 'x') {
			if (!value(v)) return usage("missing argument");
			if (v == "none") lang = T_NONE;
			else if (v == "c") lang = T_C;
			else if (v == "c-header") lang = T_CHDR;
			else if (v == "cpp-output") lang = T_CPPOUT;
			else if (v == "qbe") lang = T_QBE;
			else if (v == "assembler") lang = T_ASM;
			else if (v == "assembler-with-cpp") lang = T_ASMPP;
			else return usage("unknown language");
		}
		else if (a[1] == 'g' || a[1] == 'O') ;
		else if (a[1] == 'W') {
			if (a.size() >= 4 && a[3] == ',' && (a[2] == 'p' || a[2] == 'a' || a[2] == 'l')) {
				std::vector<std::string> &dst = a[2] == 'p' ? pp : a[2] == 'a' ? as : ld;
				split_commas(a.substr(4), dst);
			}
			// any other -W... is a warning flag: ignored
		}
		else return usage("unknown option");
	}
	if (inputs.empty()) return usage("no input");
	if (have_out && out == "-" && mode >= ASSEMBLE) return usage("object to stdout");
	// one named output file cannot hold the results of several inputs; "-o -" is
	// standard output, which (as with -E without -o) simply receives them in order
	if (have_out && out != "-" && mode != LINK && inputs.size() > 1) return usage("-o with several inputs without linking");

	std::string self = readlink_ok ? "/sim/bin/cproc" : argv[0];
	auto base = [&](int st) {
		std::vector<std::string> c;
		if (st == COMPILE) { c.push_back(self + "-qbe"); c.push_back("-t"); c.push_back(cfg.arch); }
		else {
			c = cfg.cmd[st];
			if (st == CODEGEN) { c.push_back("-t"); c.push_back(cfg.qbearch); }
		}
		const std::vector<std::string> *u = st == PREPROCESS ? &pp : st == ASSEMBLE ? &as : st == LINK ? &ld : nullptr;
		if (u) c.insert(c.end(), u->begin(), u->end());
		return c;
	};

	for (size_t k = 0; k < inputs.size(); k++) {
		const In &in = inputs[k];
		std::vector<int> st = stages_of(in.type);
		bool participates = false;
		for (int s : st) if (s == mode) participates = true;
		if (!participates) continue;
		std::vector<int> run;
		for (int s : st) if (s <= mode && s != LINK) run.push_back(s);
		if (run.empty()) continue;  // objects and libraries: link only
		// where does the result go
		std::string O;
		bool to_stdout = false;
		if (mode == LINK) O = std::string("\x01T") + std::to_string(k);
		else if (have_out) { if (out == "-") to_stdout = true; else O = out; }
		else if (mode == ASSEMBLE) O = replace_suffix(in.name, "o");
		else if (mode == CODEGEN) O = replace_suffix(in.name, "s");
		else if (mode == COMPILE) { to_stdout = true; ex.d6 = true; }  // cproc.1: "-E or -emit-qbe ... standard output"
		else to_stdout = true;
		for (size_t r = 0; r < run.size(); r++) {
			ExpSpawn sp;
			sp.stage = run[r];
			sp.input = (int)k;
			sp.argv = base(run[r]);
			bool first = r == 0, last = r + 1 == run.size();
			if (last && !to_stdout) { sp.argv.push_back("-o"); sp.argv.push_back(O); }
			if (first && in.name != "-") sp.argv.push_back(in.name);
			sp.stdin_driver = first;
			sp.stdout_driver = last;
			ex.spawns.push_back(sp);
		}
		ExpArtefact art;
		art.path = to_stdout ? "" : O;
		art.input = (int)k;
		art.stages = run;
		art.src = in.name;
		ex.arts.push_back(art);
	}
	if (mode == LINK) {
		ex.link = true;
		ex.link_out = have_out ? out : "a.out";
		ExpSpawn sp;
		sp.stage = LINK;
		sp.input = -1;
		sp.argv = base(LINK);
		sp.argv.push_back("-o");
		sp.argv.push_back(ex.link_out);
		if (!nostdlib) sp.argv.insert(sp.argv.end(), cfg.startfiles.begin(), cfg.startfiles.end());
		for (size_t k = 0; k < inputs.size(); k++) {
			if (inputs[k].type == T_LIB) { sp.argv.push_back("-l"); sp.argv.push_back(inputs[k].name); continue; }
			{
				// an input whose type does not imply the link stage (a C header) goes through no stage at all here
				bool links = false;
				for (int s2 : stages_of(inputs[k].type)) if (s2 == LINK) links = true;
				if (!links) continue;
			}
			std::string nm = inputs[k].type == T_OBJ ? inputs[k].name : std::string("\x01T") + std::to_string(k);
			sp.argv.push_back(nm);
			ex.link_objs.push_back(nm);
		}
		if (!nostdlib) sp.argv.insert(sp.argv.end(), cfg.endfiles.begin(), cfg.endfiles.end());
		sp.stdin_driver = true;
		sp.stdout_driver = true;
		ex.spawns.push_back(sp);
	}
	return ex;
}

}  // namespace sa
