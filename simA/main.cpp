// Simulator A worker: seeded search, determinism gate, minimisation, replay.
#include "sim.hpp"
#include <algorithm>
#include <cerrno>
#include <csignal>
#include <sys/time.h>
#include <sys/wait.h>
#include <unistd.h>

namespace sa {

Json Scenario::to_json() const {
	Json j = Json::obj();
	j.set("simulator", "A");
	j.set("prop", prop);
	j.set("target", config().target);
	j.set("origin_seed", hex64(origin_seed));
	j.set("origin_index", (unsigned long long)origin_index);
	if (!cell.empty()) j.set("cell", cell);
	Json av = Json::arr();
	for (auto &a : argv) av.push(a);
	j.set("argv", av);
	Json fs = Json::arr();
	for (auto &f : files) fs.push(Json::arr().push(f.first).push(f.second));
	j.set("files", fs);
	j.set("stdin_units", stdin_units);
	Json pl = Json::arr();
	for (auto &p : plans) pl.push(Json::obj().set("stage", stage_name[p.kind]).set("occ", p.occ).set("mode", mode_name[p.mode]).set("param", p.param).set("code", p.code));
	j.set("plans", pl);
	Json fl = Json::arr();
	for (auto &f : faults) { Json o = Json::obj().set("call", f.call).set("index", f.index).set("errno", f.err); if (f.persistent) o.set("persistent", true); fl.push(o); }
	j.set("faults", fl);
	Json sl = Json::arr();
	for (auto &x : stops) sl.push(Json::obj().set("stage", stage_name[x.kind]).set("occ", x.occ).set("at", x.at).set("duration", x.duration));
	j.set("stops", sl);
	Json mt = Json::arr();
	for (auto &m : missing_tools) mt.push(m);
	j.set("missing_tools", mt);
	j.set("readlink_fail", readlink_fail);
	j.set("stdin_closed", stdin_closed).set("sigchld_ignored", sigchld_ignored);
	j.set("sigterm_inherited", sigterm_inherited).set("stdin_stays_open", stdin_stays_open);
	j.set("output_symlink", output_symlink).set("heap_fill", heap_fill);
	{ Json ti = Json::arr(); for (auto &t : term_immune) ti.push(Json::obj().set("stage", stage_name[t.first]).set("occ", t.second)); j.set("term_immune", ti); }
	{ Json pd = Json::arr(); for (auto &d : path_decoys) pd.push(d); j.set("path_decoys", pd); }
	j.set("stray_exit_step", stray_exit_step);
	j.set("stray_status", stray_status);
	j.set("pipe_cap", pipe_cap);
	j.set("pid_base", pid_base);
	j.set("sched_seed", hex64(sched_seed));
	j.set("explicit_choices", explicit_choices);
	Json chs = Json::arr();
	for (auto c : choices) chs.push((unsigned)c);
	j.set("choices", chs);
	return j;
}

bool Scenario::from_json(const Json &j, Scenario &s) {
	s = Scenario();
	s.prop = j.gets("prop");
	s.origin_seed = strtoull(j.gets("origin_seed", "0").c_str(), nullptr, 16);
	s.origin_index = j.getu("origin_index");
	s.cell = j.gets("cell");
	const Json *av = j.get("argv");
	if (!av) return false;
	for (auto &a : av->a) s.argv.push_back(a.s);
	if (const Json *fs = j.get("files")) for (auto &f : fs->a) if (f.a.size() == 2) s.files.emplace_back(f.a[0].s, (int)f.a[1].inum);
	s.stdin_units = (int)j.geti("stdin_units", 3);
	if (const Json *pl = j.get("plans"))
		for (auto &p : pl->a) {
			ToolPlan t;
			std::string st = p.gets("stage"), md = p.gets("mode");
			for (int i = 0; i < NSTAGE; i++) if (st == stage_name[i]) t.kind = i;
			for (int i = 0; i < NMODE; i++) if (md == mode_name[i]) t.mode = i;
			t.occ = (int)p.geti("occ");
			t.param = (int)p.geti("param");
			t.code = (int)p.geti("code");
			s.plans.push_back(t);
		}
	if (const Json *fl = j.get("faults"))
		for (auto &f : fl->a) s.faults.push_back({f.gets("call"), (int)f.geti("index"), (int)f.geti("errno"), f.getb("persistent")});
	if (const Json *sl = j.get("stops"))
		for (auto &x : sl->a) {
			StopPlan sp;
			std::string st = x.gets("stage");
			for (int i = 0; i < NSTAGE; i++) if (st == stage_name[i]) sp.kind = i;
			sp.occ = (int)x.geti("occ"); sp.at = (int)x.geti("at"); sp.duration = (int)x.geti("duration");
			s.stops.push_back(sp);
		}
	if (const Json *mt = j.get("missing_tools")) for (auto &m : mt->a) s.missing_tools.push_back(m.s);
	s.readlink_fail = j.getb("readlink_fail");
	s.stdin_closed = j.getb("stdin_closed");
	s.sigchld_ignored = j.getb("sigchld_ignored");
	s.sigterm_inherited = (int)j.geti("sigterm_inherited", 0);
	s.stdin_stays_open = j.getb("stdin_stays_open");
	s.output_symlink = j.getb("output_symlink");
	s.heap_fill = (int)j.geti("heap_fill", 0);
	if (const Json *ti = j.get("term_immune"))
		for (auto &t : ti->a) { int k = 0; std::string st = t.gets("stage"); for (int i = 0; i < NSTAGE; i++) if (st == stage_name[i]) k = i; s.term_immune.emplace_back(k, (int)t.geti("occ")); }
	if (const Json *pd = j.get("path_decoys")) for (auto &d : pd->a) s.path_decoys.push_back(d.s);
	s.stray_exit_step = (int)j.geti("stray_exit_step", -1);
	s.stray_status = (int)j.geti("stray_status");
	s.pipe_cap = (int)j.geti("pipe_cap", 2);
	s.pid_base = (int)j.geti("pid_base", 100);
	s.sched_seed = strtoull(j.gets("sched_seed", "0").c_str(), nullptr, 16);
	s.explicit_choices = j.getb("explicit_choices");
	if (const Json *c = j.get("choices")) for (auto &v : c->a) s.choices.push_back((uint32_t)v.inum);
	return true;
}

}  // namespace sa

using namespace sa;

static std::set<std::string> g_known;  // open known findings to suppress (from KNOWN_FINDINGS.txt via --known)

// ------------------------------------------------------------ fork-per-run
static Json result_to_json(const RunResult &r, bool with_log) {
	Json j = Json::obj();
	j.set("verdict", r.verdict).set("detail", r.detail).set("hash", hex64(r.log_hash)).set("status", r.status).set("spawn_hash", hex64(r.spawn_hash));
	j.set("hang", r.hang).set("steps", r.steps).set("nspawn", r.nspawn).set("nontrivial", r.nontrivial);
	Json ch = Json::arr();
	for (auto c : r.choices) ch.push((unsigned)c);
	j.set("choices", ch);
	Json f = Json::arr();
	for (auto &s : r.fired) f.push(s);
	j.set("fired", f);
	Json cf = Json::arr();
	for (auto &s : r.configured) cf.push(s);
	j.set("configured", cf);
	Json p = Json::arr();
	for (auto &s : r.probes) p.push(s);
	j.set("probes", p);
	Json k = Json::arr();
	for (auto &s : r.known) k.push(s);
	j.set("known", k);
	Json ot = Json::arr();
	for (auto &s : r.other) ot.push(s);
	j.set("other", ot);
	Json ab = Json::arr();
	for (auto a : r.absstates) ab.push(hex64(a));
	j.set("abs", ab);
	if (with_log) j.set("log", r.log);
	return j;
}

struct Outcome {
	bool ok = false;        // child delivered a result
	int wstatus = 0;
	Json j;
	std::string verdict, detail, hash;
};

static Outcome run_forked(const Scenario &sc, bool with_log) {
	Outcome o;
	int pfd[2];
	if (pipe(pfd) < 0) { perror("pipe"); exit(2); }
	fflush(nullptr);
	pid_t pid = fork();
	if (pid < 0) { perror("fork"); exit(2); }
	if (pid == 0) {
		::close(pfd[0]);
		// the driver's diagnostics are not part of any oracle
		if (!getenv("SIMA_STDERR")) {
			FILE *dn = freopen("/dev/null", "w", stderr);
			(void)dn;
		}
		{
			// CPU time, not wall-clock: a loaded machine must not turn into a false "hang"
			struct itimerval it;
			memset(&it, 0, sizeof it);
			it.it_value.tv_sec = 20;
			setitimer(ITIMER_VIRTUAL, &it, nullptr);
		}
		RunResult r = simulate(sc);
		if (r.verdict.empty() == false && !r.known.empty()) { /* keep */ }
		std::string s = result_to_json(r, with_log).str();
		size_t off = 0;
		while (off < s.size()) {
			ssize_t n = ::write(pfd[1], s.data() + off, s.size() - off);
			if (n <= 0) break;
			off += (size_t)n;
		}
		_exit(0);
	}
	::close(pfd[1]);
	std::string buf;
	char tmp[65536];
	ssize_t n;
	while ((n = ::read(pfd[0], tmp, sizeof tmp)) > 0) buf.append(tmp, (size_t)n);
	::close(pfd[0]);
	int st = 0;
	while (waitpid(pid, &st, 0) < 0 && errno == EINTR) {}
	o.wstatus = st;
	if (WIFEXITED(st) && WEXITSTATUS(st) == 0 && Json::parse(buf, o.j)) {
		o.ok = true;
		o.verdict = o.j.gets("verdict");
		o.detail = o.j.gets("detail");
		o.hash = o.j.gets("hash");
	} else {
		o.ok = false;
		char b[96];
		if (WIFSIGNALED(st) && (WTERMSIG(st) == SIGALRM || WTERMSIG(st) == SIGVTALRM)) { o.verdict = "C18/I6 hang"; o.detail = "driver code spun for 20 s of CPU without making a system call"; }
		else if (WIFSIGNALED(st)) { snprintf(b, sizeof b, "driver code died with signal %d", WTERMSIG(st)); o.verdict = "driver-crash signal"; o.detail = b; }
		else { snprintf(b, sizeof b, "simulation child ended with wait status 0x%x", st); o.verdict = "driver-crash exit"; o.detail = b; }
		o.hash = "crash";
	}
	return o;
}

// ------------------------------------------------------------ minimisation
static int g_shrink_runs = 0;

static bool still_fails(const Scenario &sc, const std::string &cls) {
	g_shrink_runs++;
	Outcome o = run_forked(sc, false);
	return o.verdict == cls;
}

static Scenario minimise(Scenario sc, const std::string &cls, const Outcome &first) {
	// make the schedule explicit
	if (first.ok) {
		Scenario t = sc;
		t.explicit_choices = true;
		t.choices.clear();
		if (const Json *c = first.j.get("choices")) for (auto &v : c->a) t.choices.push_back((uint32_t)v.inum);
		if (still_fails(t, cls)) sc = t;
	}
	const int BUDGET = 4000;
	bool progress = true;
	while (progress && g_shrink_runs < BUDGET) {
		progress = false;
		auto attempt = [&](Scenario t) {
			if (g_shrink_runs >= BUDGET) return false;
			if (still_fails(t, cls)) { sc = t; progress = true; return true; }
			return false;
		};
		if (sc.stray_exit_step >= 0) { Scenario t = sc; t.stray_exit_step = -1; attempt(t); }
		if (sc.readlink_fail) { Scenario t = sc; t.readlink_fail = false; attempt(t); }
		if (sc.stdin_closed) { Scenario t = sc; t.stdin_closed = false; attempt(t); }
		if (sc.sigchld_ignored) { Scenario t = sc; t.sigchld_ignored = false; attempt(t); }
		if (sc.sigterm_inherited) { Scenario t = sc; t.sigterm_inherited = 0; attempt(t); }
		if (sc.stdin_stays_open) { Scenario t = sc; t.stdin_stays_open = false; attempt(t); }
		if (sc.output_symlink) { Scenario t = sc; t.output_symlink = false; attempt(t); }
		if (sc.heap_fill) { Scenario t = sc; t.heap_fill = 0; attempt(t); }
		for (size_t i = 0; i < sc.term_immune.size();) { Scenario t = sc; t.term_immune.erase(t.term_immune.begin() + i); if (!attempt(t)) i++; }
		for (size_t i = 0; i < sc.path_decoys.size();) { Scenario t = sc; t.path_decoys.erase(t.path_decoys.begin() + i); if (!attempt(t)) i++; }
		for (size_t i = 0; i < sc.faults.size(); i++) if (sc.faults[i].persistent) { Scenario t = sc; t.faults[i].persistent = false; attempt(t); }
		for (size_t i = 0; i < sc.plans.size();) { Scenario t = sc; t.plans.erase(t.plans.begin() + i); if (!attempt(t)) i++; }
		for (size_t i = 0; i < sc.faults.size();) { Scenario t = sc; t.faults.erase(t.faults.begin() + i); if (!attempt(t)) i++; }
		for (size_t i = 0; i < sc.stops.size();) { Scenario t = sc; t.stops.erase(t.stops.begin() + i); if (!attempt(t)) i++; }
		for (size_t i = 0; i < sc.missing_tools.size();) { Scenario t = sc; t.missing_tools.erase(t.missing_tools.begin() + i); if (!attempt(t)) i++; }
		for (size_t i = 0; i < sc.plans.size(); i++) {
			if (sc.plans[i].param > 0) { Scenario t = sc; t.plans[i].param = 0; if (!attempt(t)) { t = sc; t.plans[i].param = sc.plans[i].param / 2; if (t.plans[i].param != sc.plans[i].param) attempt(t); } }
			if (sc.plans[i].mode > M_EXIT1_BEFORE_READ) { Scenario t = sc; t.plans[i].mode = M_EXIT1_BEFORE_READ; t.plans[i].param = 0; t.plans[i].code = 0; attempt(t); }
			if (sc.plans[i].code) { Scenario t = sc; t.plans[i].code = 0; attempt(t); }
		}
		// command line: drop one argument at a time, then pairs (option with value)
		for (size_t i = 1; i < sc.argv.size();) {
			Scenario t = sc;
			t.argv.erase(t.argv.begin() + i);
			if (attempt(t)) continue;
			if (i + 1 < sc.argv.size()) {
				t = sc;
				t.argv.erase(t.argv.begin() + i, t.argv.begin() + i + 2);
				if (attempt(t)) continue;
			}
			i++;
		}
		for (size_t i = 0; i < sc.files.size();) {
			bool named = false;
			for (auto &a : sc.argv) if (a == sc.files[i].first) named = true;
			if (!named) { Scenario t = sc; t.files.erase(t.files.begin() + i); if (attempt(t)) continue; }
			i++;
		}
		for (size_t i = 0; i < sc.files.size(); i++) if (sc.files[i].second > 1) { Scenario t = sc; t.files[i].second = 1; attempt(t); }
		if (sc.pipe_cap != 1) { Scenario t = sc; t.pipe_cap = 1; attempt(t); }
		if (sc.explicit_choices) {
			// truncate the schedule, then zero entries
			size_t lo = 0, hi = sc.choices.size();
			while (lo < hi && g_shrink_runs < BUDGET) {
				size_t mid = (lo + hi) / 2;
				Scenario t = sc;
				t.choices.resize(mid);
				if (still_fails(t, cls)) hi = mid; else lo = mid + 1;
			}
			if (hi < sc.choices.size()) { Scenario t = sc; t.choices.resize(hi); if (still_fails(t, cls)) { sc = t; progress = true; } }
			for (size_t i = 0; i < sc.choices.size() && g_shrink_runs < BUDGET; i++)
				if (sc.choices[i]) { Scenario t = sc; t.choices[i] = 0; attempt(t); }
		}
	}
	return sc;
}

// ------------------------------------------------------------ stats
struct Stats {
	uint64_t runs = 0, nontrivial = 0, steps = 0, spawns = 0, crashes = 0, resched = 0;
	std::map<std::string, uint64_t> fired, configured, probes, verdicts, known, cells, cells_fired, status, other;
	std::set<uint64_t> abs;
	std::vector<uint64_t> hashes;
	std::vector<Json> samples;
	Json to_json() const {
		Json j = Json::obj();
		j.set("runs", (unsigned long long)runs).set("nontrivial", (unsigned long long)nontrivial).set("steps", (unsigned long long)steps).set("spawns", (unsigned long long)spawns).set("resched", (unsigned long long)resched).set("crashes", (unsigned long long)crashes);
		auto m2j = [](const std::map<std::string, uint64_t> &m) { Json o = Json::obj(); for (auto &kv : m) o.set(kv.first, (unsigned long long)kv.second); return o; };
		j.set("fired", m2j(fired)).set("configured", m2j(configured)).set("probes", m2j(probes)).set("verdicts", m2j(verdicts)).set("known", m2j(known));
		j.set("other_property_classes", m2j(other));
		j.set("cells", m2j(cells)).set("cells_fired", m2j(cells_fired)).set("status", m2j(status));
		Json ab = Json::arr();
		for (auto a : abs) ab.push(hex64(a));
		j.set("abs", ab);
		Json s = Json::arr();
		for (auto &x : samples) s.push(x);
		j.set("samples", s);
		return j;
	}
};

static void usage_exit() {
	fprintf(stderr, "usage: simA run --prop C17|C18 --seed N --start A --stride K --count N [--relaxed] [--out FILE] [--hashes FILE] [--replay-dir DIR] [--known D6,...]\n"
	                "       simA replay FILE [--known ...]\n       simA gen --prop P --seed N --index I\n");
	exit(2);
}

static Scenario make_scenario(const std::string &prop, uint64_t seed, uint64_t index, bool relaxed) {
	uint64_t rs = run_seed(seed, prop.c_str(), index);
	Scenario sc = prop == "C17" ? gen_c17(rs) : gen_c18(rs, index, relaxed);
	if (prop == "C18" && !relaxed && (index / (uint64_t)C18_NCELLS) % 8 == 7 && sc.plans.empty() && sc.faults.empty() && sc.missing_tools.empty()) {
		// fault-free cells: every 8th pass takes its command line from the whole grammar of cproc(1)
		std::string cell = sc.cell;
		sc = gen_c17(rs);
		sc.cell = cell;
	}
	sc.origin_seed = seed;
	sc.origin_index = index;
	sc.prop = prop;
	return sc;
}

int main(int argc, char **argv) {
	if (argc < 2) usage_exit();
	std::string cmd = argv[1];
	std::map<std::string, std::string> opt;
	std::vector<std::string> pos;
	for (int i = 2; i < argc; i++) {
		std::string a = argv[i];
		if (a.compare(0, 2, "--") == 0) {
			if (a == "--relaxed" || a == "--log") opt[a.substr(2)] = "1";
			else if (i + 1 < argc) opt[a.substr(2)] = argv[++i];
		} else pos.push_back(a);
	}
	if (opt.count("known")) {
		std::string k = opt["known"];
		size_t p = 0;
		while (p <= k.size()) { size_t c = k.find(',', p); if (c == std::string::npos) c = k.size(); if (c > p) g_known.insert(k.substr(p, c - p)); p = c + 1; }
	}
	setenv("SIMA_KNOWN", opt.count("known") ? opt["known"].c_str() : "", 1);
	signal(SIGPIPE, SIG_IGN);

	if (cmd == "info") {
		const Config &c = config();
		printf("{\"target\":\"%s\",\"c18_cells\":%d}\n", c.target.c_str(), C18_NCELLS);
		return 0;
	}
	if (cmd == "gen") {
		Scenario sc = make_scenario(opt["prop"], strtoull(opt["seed"].c_str(), nullptr, 0), strtoull(opt["index"].c_str(), nullptr, 0), opt.count("relaxed"));
		printf("%s\n", sc.to_json().str().c_str());
		return 0;
	}
	if (cmd == "replay") {
		if (pos.empty()) usage_exit();
		std::string text;
		Json j;
		if (!read_file(pos[0], text) || !Json::parse(text, j)) { fprintf(stderr, "cannot read replay file %s\n", pos[0].c_str()); return 2; }
		Scenario sc;
		const Json *sj = j.get("scenario");
		if (!Scenario::from_json(sj ? *sj : j, sc)) { fprintf(stderr, "bad scenario\n"); return 2; }
		Outcome o = run_forked(sc, true);
		if (const Json *sb = j.get("scenario_b")) {
			Scenario sc2;
			if (!Scenario::from_json(*sb, sc2)) return 2;
			Outcome o2 = run_forked(sc2, true);
			printf("replay pair: spawn_hash a=%s b=%s\n", o.j.gets("spawn_hash").c_str(), o2.j.gets("spawn_hash").c_str());
			if (o.ok && o2.ok && o.j.gets("spawn_hash") != o2.j.gets("spawn_hash")) {
				if (opt.count("log")) printf("--- a\n%s--- b\n%s", o.j.gets("log").c_str(), o2.j.gets("log").c_str());
				printf("VIOLATION property=%s replay=%s\n", sc.prop.c_str(), pos[0].c_str());
				return 1;
			}
			return 0;
		}
		std::string want_cls = j.gets("class"), want_hash = j.gets("log_hash");
		printf("replay: class=\"%s\" detail=\"%s\" hash=%s status=%lld\n", o.verdict.c_str(), o.detail.c_str(), o.hash.c_str(), (long long)(o.ok ? o.j.geti("status") : -1));
		if (o.ok && opt.count("log")) printf("%s", o.j.gets("log").c_str());
		if (o.ok) if (const Json *k = o.j.get("known")) for (auto &x : k->a) printf("known: %s\n", x.s.c_str());
		if (o.verdict.empty()) return 0;
		if (!want_cls.empty() && (want_cls != o.verdict || (want_hash != "" && want_hash != o.hash))) {
			printf("replay MISMATCH: file says class=\"%s\" hash=%s\n", want_cls.c_str(), want_hash.c_str());
			return 2;
		}
		printf("VIOLATION property=%s replay=%s\n", sc.prop.c_str(), pos[0].c_str());
		return 1;
	}
	if (cmd != "run") usage_exit();

	std::string prop = opt["prop"];
	uint64_t seed = strtoull(opt["seed"].c_str(), nullptr, 0);
	uint64_t start = strtoull(opt["start"].c_str(), nullptr, 0), stride = opt.count("stride") ? strtoull(opt["stride"].c_str(), nullptr, 0) : 1;
	uint64_t count = strtoull(opt["count"].c_str(), nullptr, 0);
	double deadline = opt.count("seconds") ? atof(opt["seconds"].c_str()) : 0;
	bool relaxed = opt.count("relaxed");
	std::string replay_dir = opt.count("replay-dir") ? opt["replay-dir"] : "/verif/replays";
	int max_violations = 3;
	Stats st;
	int nviol = 0, gate_fail = 0;
	struct timespec t0;
	clock_gettime(CLOCK_MONOTONIC, &t0);
	std::set<std::string> reported;
	FILE *hf = opt.count("hashes") ? fopen(opt["hashes"].c_str(), "w") : nullptr;
	uint64_t hashes_below = opt.count("hashes-below") ? strtoull(opt["hashes-below"].c_str(), nullptr, 0) : ~0ULL;

	for (uint64_t n = 0; n < count; n++) {
		if (deadline > 0 && (n & 63) == 0) {
			struct timespec t1;
			clock_gettime(CLOCK_MONOTONIC, &t1);
			if ((t1.tv_sec - t0.tv_sec) + (t1.tv_nsec - t0.tv_nsec) * 1e-9 > deadline) break;
		}
		uint64_t index = start + n * stride;
		Scenario sc = make_scenario(prop, seed, index, relaxed);
		bool sample = st.samples.size() < 3 && (n % 97) == 0;
		Outcome o = run_forked(sc, sample);
		st.runs++;
		if (prop == "C17" && o.ok && o.verdict.empty() && (index % 4) == 0) {
			// C17.5: the processes started and their arguments must not depend on the schedule
			for (int k = 1; k <= 2; k++) {
				Scenario s2 = sc;
				s2.sched_seed = mix(sc.sched_seed, (uint64_t)k);
				s2.pipe_cap = 1 + (sc.pipe_cap + k) % 4;
				Outcome o2 = run_forked(s2, false);
				st.resched++;
				if (o2.ok && o2.verdict.empty() && o2.j.gets("spawn_hash") != o.j.gets("spawn_hash")) {
					st.verdicts["C17/spawns-depend-on-schedule"]++;
					if (!reported.count("C17/spawns-depend-on-schedule") && nviol < max_violations) {
						reported.insert("C17/spawns-depend-on-schedule");
						Json rep = Json::obj();
						rep.set("property", prop).set("class", "C17/spawns-depend-on-schedule").set("detail", "same command line under two schedules: different processes, arguments or exit status");
						rep.set("seed", (unsigned long long)seed).set("index", (unsigned long long)index);
						rep.set("scenario", sc.to_json()).set("scenario_b", s2.to_json());
						if (system(("mkdir -p " + replay_dir).c_str()) != 0) {}
						std::string path = replay_dir + "/" + prop + "-" + config().target + "-sched-" + std::to_string(index) + ".json";
						write_file(path, rep.str() + "\n");
						nviol++;
						printf("VIOLATION property=%s replay=%s\n  class: C17/spawns-depend-on-schedule\n", prop.c_str(), path.c_str());
					}
					break;
				}
				if (!o2.verdict.empty()) { o = o2; sc = s2; break; }
			}
		}
		if (hf && index < hashes_below) fprintf(hf, "%llu %s\n", (unsigned long long)index, o.hash.c_str());
		if (!sc.cell.empty()) st.cells[sc.cell]++;
		if (o.ok) {
			st.steps += (uint64_t)o.j.geti("steps");
			st.spawns += (uint64_t)o.j.geti("nspawn");
			if (o.j.getb("nontrivial")) st.nontrivial++;
			if (o.j.getb("nontrivial")) st.hashes.push_back(strtoull(o.hash.c_str(), nullptr, 16));
			st.status[std::to_string(o.j.geti("status"))]++;
			bool fired_any = false;
			if (const Json *f = o.j.get("fired")) { std::set<std::string> seen; for (auto &x : f->a) if (seen.insert(x.s).second) { st.fired[x.s]++; fired_any = true; } }
			if (fired_any && !sc.cell.empty()) st.cells_fired[sc.cell]++;
			if (const Json *f = o.j.get("configured")) { std::set<std::string> seen; for (auto &x : f->a) if (seen.insert(x.s).second) st.configured[x.s]++; }
			if (const Json *f = o.j.get("probes")) for (auto &x : f->a) st.probes[x.s]++;
			if (const Json *f = o.j.get("known")) { std::set<std::string> seen; for (auto &x : f->a) if (seen.insert(x.s).second) st.known[x.s]++; }
			if (const Json *f = o.j.get("other")) { std::set<std::string> seen; for (auto &x : f->a) if (seen.insert(x.s).second) st.other[x.s]++; }
			if (const Json *f = o.j.get("abs")) for (auto &x : f->a) st.abs.insert(strtoull(x.s.c_str(), nullptr, 16));
			if (sample) {
				Json s = Json::obj();
				s.set("scenario", sc.to_json());
				std::string lg = o.j.gets("log");
				if (lg.size() > 3000) lg = lg.substr(0, 3000) + "...";
				s.set("event_log", lg).set("status", o.j.geti("status")).set("verdict", o.verdict);
				st.samples.push_back(s);
			}
		} else st.crashes++;
		if (!o.verdict.empty()) {
			st.verdicts[o.verdict]++;
			if (reported.count(o.verdict) || nviol >= max_violations) continue;
			reported.insert(o.verdict);
			// gate 1: the same scenario must fail the same way again
			Outcome o2 = run_forked(sc, false);
			if (o2.verdict != o.verdict || o2.hash != o.hash) {
				printf("HARNESS-ERROR nondeterministic: index=%llu first=\"%s\"/%s second=\"%s\"/%s\n", (unsigned long long)index, o.verdict.c_str(), o.hash.c_str(), o2.verdict.c_str(), o2.hash.c_str());
				gate_fail++;
				continue;
			}
			g_shrink_runs = 0;
			Scenario min = opt.count("no-shrink") ? sc : minimise(sc, o.verdict, o);
			Outcome om = run_forked(min, true);
			if (om.verdict != o.verdict) { min = sc; om = run_forked(sc, true); }
			Json rep = Json::obj();
			rep.set("property", prop).set("class", om.verdict).set("detail", om.detail).set("log_hash", om.hash);
			rep.set("seed", (unsigned long long)seed).set("index", (unsigned long long)index).set("shrink_runs", g_shrink_runs);
			rep.set("scenario", min.to_json());
			if (om.ok) rep.set("event_log", om.j.gets("log"));
			rep.set("original_scenario", sc.to_json());
			std::string mkd = "mkdir -p " + replay_dir;
			if (system(mkd.c_str()) != 0) {}
			std::string path = replay_dir + "/" + prop + "-" + config().target + "-" + hex64(hash_str(om.verdict + om.hash)).substr(0, 12) + ".json";
			write_file(path, rep.str() + "\n");
			// gate 2: replay in a fresh process must reproduce it exactly
			std::string self = argv[0];
			std::string rc = self + " replay " + path + (opt.count("known") ? " --known " + opt["known"] : "") + " >/dev/null 2>&1";
			int rr = system(rc.c_str());
			if (!(WIFEXITED(rr) && WEXITSTATUS(rr) == 1)) {
				printf("HARNESS-ERROR replay-gate: %s did not reproduce (status 0x%x)\n", path.c_str(), rr);
				gate_fail++;
				continue;
			}
			nviol++;
			printf("VIOLATION property=%s replay=%s\n", prop.c_str(), path.c_str());
			printf("  class: %s\n  detail: %s\n  argv: ", om.verdict.c_str(), om.detail.c_str());
			for (auto &a : min.argv) printf("%s ", a.c_str());
			printf("\n  minimised in %d re-runs (schedule length %zu)\n", g_shrink_runs, min.choices.size());
			fflush(stdout);
		}
	}
	if (hf) fclose(hf);
	if (opt.count("out")) {
		Json j = st.to_json();
		j.set("violations", nviol).set("gate_failures", gate_fail).set("target", config().target);
		write_file(opt["out"], j.str());
		// distinct event-log hashes, binary
		std::string hp = opt["out"] + ".hashes";
		FILE *f = fopen(hp.c_str(), "wb");
		if (f) { fwrite(st.hashes.data(), 8, st.hashes.size(), f); fclose(f); }
	}
	uint64_t unreported = 0;
	for (auto &kv : st.verdicts) unreported += kv.second;
	if (gate_fail) return 2;
	return nviol || unreported ? 1 : 0;
}
