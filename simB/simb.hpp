// Simulator B: all sources of cproc-qbe in-process over a simulated C library
// (allocator, stdio streams, termination).  See DESIGN.md section 3.
#pragma once
#include "../common/common.hpp"
#include <set>

namespace sb {
using namespace vf;

struct VFile {
	std::string name;     // path as given on the command line
	std::string source;   // "corpus:<file>" | "stress:<family>:<knob>" | "inline"
	std::string data;     // resolved content
};

struct FaultB {
	std::string seam;   // alloc read write fopen freopen eof flip
	long index = 0;     // call index (alloc/read/write/fopen/freopen) or byte offset (eof/flip)
	int err = 0;        // errno to report
	int prefix = 0;     // write: bytes of the buffer accepted before failing (clamped to size-1)
	bool persistent = false;  // write: every later write fails too
	int bit = 0;        // flip: which bit
	int file = 0;       // eof/flip: which input file
};

struct Plan {
	std::string prop;
	// workload and invocation
	std::vector<VFile> files;
	int target = 1;          // 0: no -t, 1 x86_64-sysv, 2 aarch64, 3 riscv64
	bool pponly = false;
	bool via_stdin = false;  // single input only
	bool stdin_pipe = false; // stdin is a pipe (not seekable) rather than a redirected file
	bool dash_o = false;
	int stack_shift = 0;
	int argv0 = 0;           // index into the list of program names (argv[0]) the compiler may be started under
	int argstyle = 0;        // 0 separate options; 1 combined/attached short options; 2 "--" before the files; 3 -o given twice
	int alt_name = 0;        // 0: input named as in the workload; else the same bytes under another path name
	// allocator schedule
	int placement = 0;       // 0 ascending, 1 descending
	int gapmax = 0;          // random gap in [0,gapmax], multiple of 16
	int fill = 0;            // 0: 0x00, 1: 0xff, 2: 0xa5, 3: seeded stream
	int free_policy = 0;     // 0 poison + never reuse, 1 LIFO reuse (refilled), 2 keep contents except the first 16 bytes (use after free "works"), 3 LIFO reuse with the stale contents (what glibc's malloc hands out: the previous owner's bytes, first 16 clobbered)
	int realloc_policy = 0;  // 0 always move + poison old, 1 in place when possible
	int zero_policy = 0;     // 0 unique pointer, 1 NULL
	uint64_t alloc_seed = 0;
	// stream schedule
	int chunk = 0;           // 0: as much as asked; >0: at most that many bytes per read; -1: seeded 1..n
	int outbuf = 0;          // 0 default (full), 1 unbuffered, 2 line, 3 1-byte, 4 64 B, 5 64 KiB, 6 4 KiB explicit
	uint64_t io_seed = 0;
	uint64_t trip_seed = 0;  // values returned by the tripwire wrappers (getenv, time, ...)
	std::vector<FaultB> faults;
	// bookkeeping
	uint64_t origin_seed = 0, origin_index = 0;
	std::string label;

	Json to_json(bool with_data) const;
	static bool from_json(const Json &j, Plan &p, const std::string &repo);
	bool is_null_schedule() const;
};

enum Kind { K_EXIT = 0, K_SIGNAL, K_ABORT, K_ASSERT, K_NONTERM, K_CANARY, K_BADFREE, K_SANITIZER, K_HARNESS };
static const char *const kind_name[] = {"exit", "signal", "abort", "assert", "nontermination", "heap-canary", "bad-free", "sanitizer", "harness"};

enum Fired { F_ALLOC = 1, F_READ = 2, F_WRITE = 4, F_FOPEN = 8, F_FREOPEN = 16, F_EOF = 32, F_FLIP = 64, F_TRIPWIRE = 128, F_RENAME = 256 };

struct Res {
	int kind = K_HARNESS;
	int status = -1;
	int sig = 0;
	uint64_t sink_hash = 0, sink_len = 0;
	uint64_t stray_len = 0;     // bytes that went to the stream that is not the designated output
	uint64_t ev_hash = 0;
	uint64_t steps = 0;
	uint32_t nalloc = 0, nrealloc = 0, nfree = 0, nread = 0, nwrite = 0, nfopen = 0;
	uint32_t fired = 0;
	uint32_t dropped = 0;       // output bytes refused or dropped by a write fault
	uint32_t maxdepth = 0;
	uint32_t realloc_moved = 0, lifo_reused = 0;
	void *stack[4] = {nullptr, nullptr, nullptr, nullptr};   // shadow stack top at the end (crash/abort/nonterm)
	void *fault_fn[2] = {nullptr, nullptr};                  // shadow stack top when the first fault fired
	uint32_t nfn = 0;           // functions entered (distinct), when coverage was requested
	uint32_t tolerated_double_free = 0;  // second free of a block under a policy that, like a production allocator, does not notice
	uint32_t vg_errors = 0;     // memcheck errors counted during the run (worker started under valgrind only)
	char msg[200] = {0};        // first diagnostic line / assertion text
};

struct Outcome {
	Res r;
	std::string sink;       // when requested
	std::string report;     // sanitizer report (sanitized build)
	std::vector<void *> fns; // coverage
	std::string signature;  // kind + function names
	std::string vg_sig;     // memcheck: kind of the first error + innermost cproc functions
	std::string vg_text;    // memcheck: the first error as valgrind printed it
};

Outcome run_plan(const Plan &p, bool want_sink, bool want_cov);
std::string fn_name(void *addr);
void symbols_init(const char *self);
std::string stress_input(const std::string &family, long knob);
extern const char *const TARGETS[];
bool sanitized_build();
bool under_memcheck();

}  // namespace sb
