// Simulated C library under cproc-qbe: allocator, streams, termination,
// step counter.  Linked with -Wl,--wrap; compiled WITHOUT -finstrument-functions.
#ifndef _GNU_SOURCE
#define _GNU_SOURCE
#endif
#include "simb.hpp"
#if !defined(SIMB_SANITIZED) && defined(__has_include)
#if __has_include(<valgrind/memcheck.h>)
#include <valgrind/memcheck.h>
#define SIMB_HAVE_MEMCHECK 1
#endif
#endif
#ifndef SIMB_HAVE_MEMCHECK
#define RUNNING_ON_VALGRIND 0
#define VALGRIND_MAKE_MEM_UNDEFINED(p, n) ((void)0)
#define VALGRIND_MAKE_MEM_DEFINED(p, n) ((void)0)
#define VALGRIND_CHECK_MEM_IS_DEFINED(p, n) ((void)0)
#define VALGRIND_CHECK_VALUE_IS_DEFINED(v) ((void)0)
#define VALGRIND_COUNT_ERRORS 0
#endif
#include <cerrno>
#include <csetjmp>
#include <csignal>
#include <ctime>
#include <fcntl.h>
#include <sys/mman.h>
#include <sys/stat.h>
#include <sys/resource.h>
#include <clocale>
#include <cstdarg>
#include <sys/time.h>
#include <sys/wait.h>
#include <unistd.h>

#define NOINSTR __attribute__((no_instrument_function))

extern "C" {
int cproc_qbe_main(int argc, char **argv);
void *__real_malloc(size_t);
void *__real_realloc(void *, size_t);
void *__real_calloc(size_t, size_t);
void __real_free(void *);
FILE *__real_fopen(const char *, const char *);
FILE *__real_freopen(const char *, const char *, FILE *);
void __real_exit(int) __attribute__((noreturn));
char *__real_getenv(const char *);
time_t __real_time(time_t *);
int __real_clock_gettime(clockid_t, struct timespec *);
int __real_fileno(FILE *);
ssize_t __real_read(int, void *, size_t);
ssize_t __real_write(int, const void *, size_t);
int __real_isatty(int);
int __real_remove(const char *);
int __real_unlink(const char *);
int __real_rename(const char *, const char *);
int __real_open(const char *, int, ...);
int __real_close(int);
off_t __real_lseek(int, off_t, int);
int __real_fstat(int, struct stat *);
int __real_stat(const char *, struct stat *);
FILE *__real_fdopen(int, const char *);
int __real_dup(int);
void __real__exit(int) __attribute__((noreturn));
void __real__Exit(int) __attribute__((noreturn));
int __real_ftruncate(int, off_t);
int __real_getrlimit(int, struct rlimit *);
char *__real_getcwd(char *, size_t);
mode_t __real_umask(mode_t);
int __real_gettimeofday(struct timeval *, void *);
clock_t __real_clock(void);
uid_t __real_getuid(void);
pid_t __real_getppid(void);
long __real_sysconf(int);
char *__real_setlocale(int, const char *);
pid_t __real_getpid(void);
size_t __sanitizer_get_allocated_size(const volatile void *);
}

namespace sb {

const char *const TARGETS[] = {nullptr, "x86_64-sysv", "aarch64", "riscv64"};

#ifdef SIMB_SANITIZED
bool sanitized_build() { return true; }
#else
bool sanitized_build() { return false; }
#endif

namespace {

const size_t ARENA_SIZE = 4ULL << 30;
char *const ARENA_BASE = (char *)0x100000000000ULL;
const uint64_t MAGIC_LIVE = 0x4c495645424c4b21ULL, MAGIC_FREE = 0x46524545424c4b21ULL;
const int MAXD = 1 << 16;

struct Hdr { uint64_t size; uint64_t magic; uint64_t total; uint64_t pad; };  // 32 bytes, then 16 canary, then user
const size_t FRONT = sizeof(Hdr) + 16;

struct InStream { int file; size_t pos; };
struct OutStream { int which; std::string path; };  // 0: the process's stdout, 1: a file opened for writing (path)
struct FdEnt { FILE *f; int fd; InStream *in; OutStream *out; };

struct State {
	const Plan *plan = nullptr;
	bool in_sut = false;
	jmp_buf jb;
	Res res;
	Rng arng{0}, iorng{0}, triprng{0};
	char *lo = nullptr, *hi = nullptr;
	std::vector<char *> blocks;                 // every block ever handed out (plain build)
	std::map<size_t, std::vector<char *>> freelist;
	std::string sink[2];                        // [0] stdout, [1] filled at the end from outfiles["/sim/out"]
	std::map<std::string, std::string> outfiles; // simulated files opened for writing
	int designated = 0;
	bool write_dead = false;
	uint64_t budget_steps = 0;
	uint32_t budget_depth = 0;
	uint32_t depth = 0;
	uint32_t lowdepth = 0;      // lowest call depth seen in the second half of the step budget: the frame that loops
	void *shadow[MAXD];
	bool want_cov = false;
	void *seen[8192];
	int resfd = -1;
	bool want_sink = false;
	std::string errbuf;
	FILE *orig_stdout = nullptr, *orig_stderr = nullptr, *orig_stdin = nullptr;
	std::vector<InStream *> ins;
	std::vector<FdEnt> fds;                     // simulated descriptors behind the cookie streams
	std::vector<void (*)(void)> atexit_fns;
	bool exiting = false;
	bool out_removed = false;
	char obuf[65536];
};
State S;

NOINSTR inline void ev(uint64_t tag, uint64_t v) { S.res.ev_hash = mix(S.res.ev_hash ^ tag, v + S.res.steps); }

NOINSTR void snapshot_stack(void **dst, int n) {
	for (int i = 0; i < n; i++) {
		int d = (int)S.depth - 1 - i;
		dst[i] = d >= 0 && d < MAXD ? S.shadow[d] : nullptr;
	}
}

// the same bytes under another path: absolute, in another directory, or with another base name
NOINSTR std::string alt_name(const Plan &p, const std::string &name) {
	switch (p.alt_name) {
	case 1: return "/home/user/project/" + name;
	case 2: return "./" + name;
	case 3: return "../elsewhere/" + name.substr(name.rfind('/') == std::string::npos ? 0 : name.rfind('/') + 1);
	case 4: return "t" + std::to_string((p.alloc_seed ^ hash_str(name)) % 100000) + ".c";
	default: return name;
	}
}

NOINSTR const FaultB *find_fault(const char *seam, long index) {
	for (auto &f : S.plan->faults)
		if (f.index == index && f.seam == seam) return &f;
	return nullptr;
}

NOINSTR void fired(uint32_t bit) {
	if (!S.res.fired) snapshot_stack(S.res.fault_fn, 2);
	S.res.fired |= bit;
}

NOINSTR void send_result_and_exit() {
	// final bookkeeping that is safe in any context
	{
		auto it = S.outfiles.find("/sim/out");
		S.sink[1] = it != S.outfiles.end() ? it->second : std::string(S.plan->dash_o ? "<output file does not exist>" : "");
		if (S.out_removed && it == S.outfiles.end()) S.sink[1] = "<output file removed>";
	}
	S.designated = S.plan->dash_o ? 1 : 0;
	S.res.vg_errors = (uint32_t)VALGRIND_COUNT_ERRORS;
	const std::string &out = S.sink[S.designated];
	S.res.sink_len = out.size();
	S.res.sink_hash = hash_bytes(out.data(), out.size());
	S.res.stray_len = S.plan->dash_o ? S.sink[0].size() : 0;
	for (auto &kv : S.outfiles) if (kv.first != "/sim/out") S.res.stray_len += kv.second.size() + 1;  // anything written elsewhere
	if (S.want_cov) {
		uint32_t n = 0;
		for (void *p : S.seen) if (p) n++;
		S.res.nfn = n;
	}
	size_t off = 0;
	const char *p = (const char *)&S.res;
	while (off < sizeof S.res) {
		ssize_t k = write(S.resfd, p + off, sizeof S.res - off);
		if (k <= 0) break;
		off += (size_t)k;
	}
	if (S.want_cov) {
		for (void *q : S.seen) if (q) { ssize_t k = write(S.resfd, &q, sizeof q); (void)k; }
	}
	if (S.want_sink) {
		size_t o2 = 0;
		while (o2 < out.size()) {
			ssize_t k = write(S.resfd, out.data() + o2, out.size() - o2);
			if (k <= 0) break;
			o2 += (size_t)k;
		}
	}
	_exit(0);
}

[[noreturn]] NOINSTR void finish(int kind, int status) {
	S.in_sut = false;
	S.res.kind = kind;
	S.res.status = status;
	if (kind != K_EXIT) snapshot_stack(S.res.stack, 4);
	longjmp(S.jb, 1);
}

NOINSTR void fill_mem(char *p, size_t n) {
	switch (S.plan->fill) {
	case 0: memset(p, 0, n); break;
	case 1: memset(p, 0xff, n); break;
	case 2: memset(p, 0xa5, n); break;
	default: {
		uint64_t s = S.arng.next();
		for (size_t i = 0; i < n; i++) { if ((i & 7) == 0) s = splitmix64(s); p[i] = (char)(s >> ((i & 7) * 8)); }
	}
	}
}

NOINSTR void set_canaries(char *user, size_t n) {
	memset(user - 16, 0xc5, 16);
	memset(user + n, 0x5c, 16);
}
NOINSTR bool check_canaries(char *user) {
	Hdr *h = (Hdr *)(user - FRONT);
	for (int i = 0; i < 16; i++) if ((unsigned char)user[-16 + i] != 0xc5) return false;
	for (int i = 0; i < 16; i++) if ((unsigned char)user[h->size + i] != 0x5c) return false;
	return true;
}

NOINSTR char *arena_alloc(size_t n) {
	size_t total = (FRONT + n + 16 + 15) & ~(size_t)15;
	if (S.plan->free_policy == 1 || S.plan->free_policy == 3) {
		// free lists are per size class (16-byte granules, as in production allocators), not per exact request size
		auto it = S.freelist.find(total);
		if (it != S.freelist.end() && !it->second.empty()) {
			char *user = it->second.back();
			it->second.pop_back();
			Hdr *h = (Hdr *)(user - FRONT);
			h->magic = MAGIC_LIVE;
			h->size = n;
			if (S.plan->free_policy == 1) fill_mem(user, n);  // policy 3: the previous owner's bytes stay, as with a production allocator
			set_canaries(user, n);
			S.res.lifo_reused++;
			VALGRIND_MAKE_MEM_UNDEFINED(user, n);
			return user;
		}
	}
	size_t gap = S.plan->gapmax > 0 ? 16 * (size_t)S.arng.below((uint32_t)(S.plan->gapmax / 16 + 1)) : 0;
	char *base;
	if (S.plan->placement == 0) { base = S.lo + gap; S.lo = base + total; }
	else { S.hi -= total + gap; base = S.hi; }
	if (S.lo > S.hi) { snprintf(S.res.msg, sizeof S.res.msg, "simulated arena exhausted"); finish(K_HARNESS, 0); }
	Hdr *h = (Hdr *)base;
	h->size = n; h->magic = MAGIC_LIVE; h->total = total; h->pad = 0;
	char *user = base + FRONT;
	fill_mem(user, n);
	set_canaries(user, n);
	S.blocks.push_back(user);
	// under memcheck the fill pattern is data without definedness: what malloc returns is indeterminate
	VALGRIND_MAKE_MEM_UNDEFINED(user, n);
	return user;
}

NOINSTR bool in_arena(void *p) { return (char *)p >= ARENA_BASE && (char *)p < ARENA_BASE + ARENA_SIZE; }

NOINSTR void arena_free(char *user) {
	if (!in_arena(user)) { snprintf(S.res.msg, sizeof S.res.msg, "free of a pointer that malloc never returned"); finish(K_BADFREE, 0); }
	Hdr *h = (Hdr *)(user - FRONT);
	if (h->magic == MAGIC_FREE) {
		// production allocators do not reliably notice a second free of the same block; under the two policies that model
		// them the program simply goes on (and what it then computes is compared with the strict reference run)
		if (S.plan->free_policy == 2 || S.plan->free_policy == 3) { S.res.tolerated_double_free++; return; }
		snprintf(S.res.msg, sizeof S.res.msg, "double free"); finish(K_BADFREE, 0);
	}
	if (h->magic != MAGIC_LIVE) { snprintf(S.res.msg, sizeof S.res.msg, "free of a pointer that is not the start of a block (or header overwritten)"); finish(K_BADFREE, 0); }
	if (!check_canaries(user)) { snprintf(S.res.msg, sizeof S.res.msg, "heap block of %zu bytes overrun/underrun (detected at free)", (size_t)h->size); finish(K_CANARY, 0); }
	h->magic = MAGIC_FREE;
	if (S.plan->free_policy == 2 || S.plan->free_policy == 3) {
		// what a production allocator does: the block keeps its contents, only the first
		// 16 bytes are taken for free-list links - a use after free "works"
		memset(user, 0xdd, h->size < 16 ? h->size : 16);
	} else memset(user, 0xdd, h->size);
	if (S.plan->free_policy == 1 || S.plan->free_policy == 3) S.freelist[h->total].push_back(user);
}

NOINSTR void check_all_canaries() {
	for (char *user : S.blocks) {
		Hdr *h = (Hdr *)(user - FRONT);
		if (h->magic == MAGIC_LIVE && !check_canaries(user)) {
			snprintf(S.res.msg, sizeof S.res.msg, "heap block of %zu bytes overrun/underrun (detected at exit)", (size_t)h->size);
			S.res.kind = K_CANARY;
			S.res.status = 0;
			return;
		}
		if (h->magic == MAGIC_FREE && S.plan->free_policy == 0) {
			for (size_t i = 0; i < h->size; i++)
				if ((unsigned char)user[i] != 0xdd) {
					snprintf(S.res.msg, sizeof S.res.msg, "write to freed heap block of %zu bytes (detected at exit)", (size_t)h->size);
					S.res.kind = K_CANARY;
					return;
				}
		}
	}
}

// ---------------------------------------------------------------- streams
NOINSTR ssize_t in_read(void *c, char *buf, size_t n) {
	InStream *in = (InStream *)c;
	long k = S.res.nread++;
	const std::string &data = S.plan->files[in->file].data;
	size_t limit = data.size();
	const FaultB *flip = nullptr;
	for (auto &f : S.plan->faults) {
		if (f.file != in->file) continue;
		if (f.seam == "eof" && (size_t)f.index < limit) limit = (size_t)f.index;
		if (f.seam == "flip") flip = &f;
	}
	if (const FaultB *f = S.in_sut ? find_fault("read", k) : nullptr) {
		fired(F_READ);
		ev(0x72, (uint64_t)k);
		errno = f->err ? f->err : EIO;
		return -1;
	}
	size_t avail = in->pos < limit ? limit - in->pos : 0;
	if (avail == 0) {
		if (limit < data.size()) fired(F_EOF);
		ev(0x65, in->pos);
		return 0;
	}
	size_t m = n;
	if (S.plan->chunk > 0 && m > (size_t)S.plan->chunk) m = (size_t)S.plan->chunk;
	else if (S.plan->chunk < 0) m = 1 + S.iorng.below((uint32_t)(n > 8192 ? 8192 : n));
	if (m > avail) m = avail;
	memcpy(buf, data.data() + in->pos, m);
	if (flip && (size_t)flip->index >= in->pos && (size_t)flip->index < in->pos + m) {
		buf[flip->index - (long)in->pos] ^= (char)(1 << (flip->bit & 7));
		fired(F_FLIP);
	}
	in->pos += m;
	ev(0x52, m);
	return (ssize_t)m;
}
NOINSTR void forget_stream(void *cookie);
NOINSTR int in_close(void *c) { forget_stream(c); ev(0x63, 0); return 0; }

// regular files are seekable; a pipe on stdin is not (no seek callback)
NOINSTR int in_seek(void *c, off64_t *pos, int whence) {
	InStream *in = (InStream *)c;
	const std::string &data = S.plan->files[in->file].data;
	off64_t base = whence == SEEK_SET ? 0 : whence == SEEK_CUR ? (off64_t)in->pos : (off64_t)data.size();
	off64_t np = base + *pos;
	if (np < 0) { errno = EINVAL; return -1; }
	in->pos = (size_t)np;
	*pos = np;
	ev(0x73, (uint64_t)np);
	return 0;
}

NOINSTR ssize_t out_write(void *c, const char *buf, size_t n) {
	OutStream *o = (OutStream *)c;
	// C20: no output byte depends on uninitialised memory (reported by memcheck when the worker runs under it)
	VALGRIND_CHECK_MEM_IS_DEFINED(buf, n);
	VALGRIND_MAKE_MEM_DEFINED(buf, n);
	long k = S.res.nwrite++;
	const FaultB *f = find_fault("write", k);
	if (S.write_dead || f) {
		size_t acc = 0;
		if (f && !S.write_dead) {
			acc = (size_t)f->prefix < n ? (size_t)f->prefix : n - 1;
			if (f->persistent) S.write_dead = true;
		}
		(o->which ? S.outfiles[o->path] : S.sink[0]).append(buf, acc);
		S.res.dropped += (uint32_t)(n - acc);
		fired(F_WRITE);
		ev(0x77, (uint64_t)k * 131 + acc);
		errno = f && f->err ? f->err : ENOSPC;
		return (ssize_t)acc;  // short count: stdio flags the error and drops the rest
	}
	(o->which ? S.outfiles[o->path] : S.sink[0]).append(buf, n);
	ev(0x57, hash_bytes(buf, n));
	return (ssize_t)n;
}

NOINSTR ssize_t err_write(void *c, const char *buf, size_t n) {
	(void)c;
	if (S.errbuf.size() < 4096) S.errbuf.append(buf, n);
	return (ssize_t)n;
}

// a closed stream's FILE may be handed out again by the next fopencookie: drop its descriptor entry
NOINSTR void forget_stream(void *cookie) {
	for (size_t i = 0; i < S.fds.size(); i++)
		if ((void *)S.fds[i].in == cookie) { S.fds.erase(S.fds.begin() + (long)i); return; }
}

NOINSTR FILE *make_out(int which, const char *path = "", bool append = false) {
	cookie_io_functions_t io = {nullptr, out_write, nullptr, nullptr};
	OutStream *os = new OutStream{which, path};
	if (which && !append) S.outfiles[path].clear();
	FILE *f = fopencookie(os, "w", io);
	S.fds.push_back(FdEnt{f, which == 0 ? 1 : 200 + (int)S.fds.size(), nullptr, os});
	switch (S.plan->outbuf) {
	case 1: setvbuf(f, nullptr, _IONBF, 0); break;
	case 2: setvbuf(f, S.obuf, _IOLBF, 4096); break;
	case 3: setvbuf(f, S.obuf, _IOFBF, 1); break;
	case 4: setvbuf(f, S.obuf, _IOFBF, 64); break;
	case 5: setvbuf(f, S.obuf, _IOFBF, 65536); break;
	case 6: setvbuf(f, S.obuf, _IOFBF, 4096); break;
	default: break;
	}
	return f;
}

NOINSTR FILE *make_in(int file, bool seekable) {
	cookie_io_functions_t io = {in_read, nullptr, seekable ? in_seek : nullptr, in_close};
	InStream *in = new InStream{file, 0};
	S.ins.push_back(in);
	FILE *f = fopencookie(in, "r", io);
	S.fds.push_back(FdEnt{f, S.ins.size() == 1 && S.plan->via_stdin ? 0 : 100 + (int)S.ins.size(), in, nullptr});
	return f;
}

// ---------------------------------------------------------------- signals
NOINSTR void on_signal(int sig) {
	S.in_sut = false;
	S.res.kind = sig == SIGVTALRM ? K_NONTERM : K_SIGNAL;
	S.res.sig = sig;
	snapshot_stack(S.res.stack, 4);
	if (sig == SIGVTALRM) snprintf(S.res.msg, sizeof S.res.msg, "CPU time limit (20 s + 1 s per 20 kB of input) exceeded");
	send_result_and_exit();
}

}  // namespace

// ---------------------------------------------------------------- wrapped calls
extern "C" {

NOINSTR void __cyg_profile_func_enter(void *fn, void *site) {
	(void)site;
	if (!S.in_sut) return;
	S.res.steps++;
	if (S.depth < (uint32_t)MAXD) S.shadow[S.depth] = fn;
	S.depth++;
	if (S.depth > S.res.maxdepth) S.res.maxdepth = S.depth;
	if (S.want_cov) {
		size_t h = ((uintptr_t)fn >> 4) & 8191;
		while (S.seen[h] && S.seen[h] != fn) h = (h + 1) & 8191;
		S.seen[h] = fn;
	}
	if (S.res.steps > S.budget_steps / 2) {
		if (S.res.steps == S.budget_steps / 2 + 1 || S.depth < S.lowdepth) S.lowdepth = S.depth;
	}
	if (S.res.steps > S.budget_steps) {
		// attribute the loop to the innermost frame that never returned during the second half of the budget
		if (S.lowdepth >= 1 && S.lowdepth <= S.depth) S.depth = S.lowdepth;
		snprintf(S.res.msg, sizeof S.res.msg, "step budget of %llu function entries exceeded", (unsigned long long)S.budget_steps); finish(K_NONTERM, 0); }
	if (S.depth > S.budget_depth) { snprintf(S.res.msg, sizeof S.res.msg, "call depth budget of %u exceeded", S.budget_depth); finish(K_NONTERM, 0); }
}
NOINSTR void __cyg_profile_func_exit(void *fn, void *site) {
	(void)fn; (void)site;
	if (!S.in_sut) return;
	if (S.depth) S.depth--;
	if (S.res.steps > S.budget_steps / 2 && S.depth < S.lowdepth) S.lowdepth = S.depth;
}

NOINSTR void *__wrap_malloc(size_t n) {
	if (!S.in_sut) return __real_malloc(n);
	long k = S.res.nalloc++;
	if (const FaultB *f = find_fault("alloc", k)) {
		(void)f;
		fired(F_ALLOC);
		ev(0x6d, (uint64_t)k);
		errno = ENOMEM;
		return nullptr;
	}
	if (n == 0 && S.plan->zero_policy == 1) { ev(0x7a, 0); return nullptr; }
	S.in_sut = false;
	char *p;
#ifdef SIMB_SANITIZED
	p = (char *)__real_malloc(n);
	if (p) fill_mem(p, n);
	ev(0x4d, n);
#else
	p = arena_alloc(n);
	ev(0x4d, n * 1315423911ULL + (uint64_t)(p - ARENA_BASE));
#endif
	S.in_sut = true;
	return p;
}

NOINSTR void __wrap_free(void *p) {
	if (!S.in_sut) {
#ifndef SIMB_SANITIZED
		if (in_arena(p)) return;
#endif
		__real_free(p);
		return;
	}
	S.res.nfree++;
	if (!p) return;
	S.in_sut = false;
#ifdef SIMB_SANITIZED
	__real_free(p);
	ev(0x46, 0);
#else
	ev(0x46, (uint64_t)((char *)p - ARENA_BASE));
	arena_free((char *)p);
#endif
	S.in_sut = true;
}

NOINSTR void *__wrap_realloc(void *old, size_t n) {
	if (!S.in_sut) return __real_realloc(old, n);
	if (!old) return __wrap_malloc(n);
	long k = S.res.nalloc++;
	S.res.nrealloc++;
	if (find_fault("alloc", k)) {
		fired(F_ALLOC);
		ev(0x6d, (uint64_t)k);
		errno = ENOMEM;
		return nullptr;
	}
	S.in_sut = false;
	char *p;
#ifdef SIMB_SANITIZED
	if (S.plan->realloc_policy == 0) {
		// always move: the old block becomes poisoned (ASan quarantine)
		p = (char *)__real_malloc(n ? n : 1);
		size_t os = __sanitizer_get_allocated_size(old);
		if (p) {
			if (n > os) fill_mem(p + os, n - os);
			memcpy(p, old, os < n ? os : n);
			__real_free(old);
			S.res.realloc_moved++;
		}
	} else p = (char *)__real_realloc(old, n);
	ev(0x52, n);
#else
	if (!in_arena(old)) { snprintf(S.res.msg, sizeof S.res.msg, "realloc of a pointer that malloc never returned"); finish(K_BADFREE, 0); }
	Hdr *h = (Hdr *)((char *)old - FRONT);
	if (h->magic != MAGIC_LIVE) { snprintf(S.res.msg, sizeof S.res.msg, "realloc of a freed or invalid block"); finish(K_BADFREE, 0); }
	if (!check_canaries((char *)old)) { snprintf(S.res.msg, sizeof S.res.msg, "heap block of %zu bytes overrun/underrun (detected at realloc)", (size_t)h->size); finish(K_CANARY, 0); }
	size_t os = h->size;
	bool inplace = false;
	if (S.plan->realloc_policy == 1) {
		size_t need = (FRONT + n + 16 + 15) & ~(size_t)15;
		if (need <= h->total) inplace = true;
		else if (S.plan->placement == 0 && (char *)h + h->total == S.lo && (char *)h + need < S.hi) { S.lo = (char *)h + need; h->total = need; inplace = true; }
	}
	if (inplace) {
		p = (char *)old;
		if (n > os) { fill_mem(p + os, n - os); VALGRIND_MAKE_MEM_UNDEFINED(p + os, n - os); }
		h->size = n;
		set_canaries(p, n);
	} else {
		p = arena_alloc(n);
		memcpy(p, old, os < n ? os : n);
		arena_free((char *)old);
		S.res.realloc_moved++;
	}
	ev(0x52, n * 1315423911ULL + (uint64_t)(p - ARENA_BASE));
#endif
	S.in_sut = true;
	return p;
}

NOINSTR void *__wrap_calloc(size_t a, size_t b) {
	if (!S.in_sut) return __real_calloc(a, b);
	void *p = __wrap_malloc(a * b);
	if (p) memset(p, 0, a * b);
	return p;
}

NOINSTR FILE *__wrap_fopen(const char *path, const char *mode) {
	if (!S.in_sut) return __real_fopen(path, mode);
	long k = S.res.nfopen++;
	ev(0x6f, hash_bytes(path, strlen(path)));
	if (const FaultB *f = find_fault("fopen", k)) {
		fired(F_FOPEN);
		errno = f->err ? f->err : ENOENT;
		return nullptr;
	}
	if (mode && (mode[0] == 'w' || mode[0] == 'a')) {
		S.in_sut = false;
		FILE *f = make_out(1, path, mode[0] == 'a');
		S.in_sut = true;
		return f;
	}
	for (size_t i = 0; i < S.plan->files.size(); i++)
		if (alt_name(*S.plan, S.plan->files[i].name) == path) {
			S.in_sut = false;
			FILE *f = make_in((int)i, true);
			S.in_sut = true;
			return f;
		}
	errno = ENOENT;
	return nullptr;
}

NOINSTR FILE *__wrap_freopen(const char *path, const char *mode, FILE *stream) {
	if (!S.in_sut) return __real_freopen(path, mode, stream);
	ev(0x66, hash_bytes(path, strlen(path)));
	if (const FaultB *f = find_fault("freopen", 0)) {
		fired(F_FREOPEN);
		errno = f->err ? f->err : EACCES;
		return nullptr;
	}
	if (stream != stdout) { errno = EBADF; return nullptr; }
	S.in_sut = false;
	FILE *f = make_out(1, path, mode && mode[0] == 'a');
	stdout = f;
	S.in_sut = true;
	return f;
}

NOINSTR int __wrap_atexit(void (*fn)(void)) {
	if (!S.in_sut) return 0;
	S.atexit_fns.push_back(fn);
	ev(0x61, S.atexit_fns.size());
	return 0;
}

NOINSTR void __wrap_exit(int status) {
	if (!S.in_sut) __real_exit(status);
	if (!S.exiting) {
		S.exiting = true;
		// exit() first runs the handlers registered with atexit, last registered first ...
		while (!S.atexit_fns.empty()) {
			void (*fn)(void) = S.atexit_fns.back();
			S.atexit_fns.pop_back();
			fn();
		}
	}
	// ... then flushes every open output stream
	fflush(stdout);
	VALGRIND_CHECK_VALUE_IS_DEFINED(status);
	ev(0x78, (uint64_t)status);
	finish(K_EXIT, status & 0xff);
}

NOINSTR void __wrap_abort(void) {
	if (!S.in_sut) { signal(SIGABRT, SIG_DFL); raise(SIGABRT); _exit(134); }
	snprintf(S.res.msg, sizeof S.res.msg, "abort() called");
	finish(K_ABORT, 0);
}

NOINSTR void __wrap___assert_fail(const char *expr, const char *file, unsigned line, const char *func) {
	if (!S.in_sut) { fprintf(stderr, "assertion failed: %s %s:%u\n", expr, file, line); _exit(134); }
	const char *b = strrchr(file, '/');
	snprintf(S.res.msg, sizeof S.res.msg, "assertion `%s' failed at %s:%u in %s", expr, b ? b + 1 : file, line, func);
	finish(K_ASSERT, 0);
}

// descriptor-level access to the simulated streams (not used by cproc-qbe today;
// a change that bypasses stdio still stays inside the simulator)
NOINSTR static FdEnt *fd_by_file(FILE *f) { for (size_t i = S.fds.size(); i-- > 0;) if (S.fds[i].f == f) return &S.fds[i]; return nullptr; }
NOINSTR static FdEnt *fd_by_fd(int fd) { for (auto &e : S.fds) if (e.fd == fd) return &e; return nullptr; }

NOINSTR int __wrap_fileno(FILE *f) {
	if (!S.in_sut) return __real_fileno(f);
	if (FdEnt *e = fd_by_file(f)) return e->fd;
	if (f == stderr) return 2;
	errno = EBADF;
	return -1;
}
NOINSTR ssize_t __wrap_read(int fd, void *buf, size_t n) {
	if (!S.in_sut) return __real_read(fd, buf, n);
	FdEnt *e = fd_by_fd(fd);
	if (!e || !e->in) { errno = EBADF; return -1; }
	return in_read(e->in, (char *)buf, n);
}
NOINSTR ssize_t __wrap_write(int fd, const void *buf, size_t n) {
	if (!S.in_sut) return __real_write(fd, buf, n);
	if (fd == 2) return err_write(nullptr, (const char *)buf, n);
	FdEnt *e = fd_by_fd(fd);
	if (!e || !e->out) { errno = EBADF; return -1; }
	ssize_t r = out_write(e->out, (const char *)buf, n);
	return r == 0 && n ? -1 : r;
}
NOINSTR int __wrap_isatty(int fd) {
	if (!S.in_sut) return __real_isatty(fd);
	// the environment decides whether a descriptor is a terminal: seeded, so dependence on it shows
	fired(F_TRIPWIRE);
	(void)fd;
	return (int)(S.triprng.next() & 1);
}
NOINSTR static int sim_remove(const char *path) {
	ev(0x75, hash_bytes(path, strlen(path)));
	auto it = S.outfiles.find(path);
	if (it != S.outfiles.end()) {
		S.outfiles.erase(it);
		if (strcmp(path, "/sim/out") == 0) S.out_removed = true;
		return 0;
	}
	errno = ENOENT;
	return -1;
}
NOINSTR int __wrap_remove(const char *path) { return S.in_sut ? sim_remove(path) : __real_remove(path); }
NOINSTR int __wrap_unlink(const char *path) { return S.in_sut ? sim_remove(path) : __real_unlink(path); }

NOINSTR int __wrap_rename(const char *from, const char *to) {
	if (!S.in_sut) return __real_rename(from, to);
	ev(0x6e, hash_bytes(to, strlen(to)));
	if (const FaultB *f = find_fault("rename", 0)) {
		// the destination is a directory, lives on another file system, is not writable, ...
		fired(F_RENAME);
		errno = f->err ? f->err : EISDIR;
		return -1;
	}
	auto it = S.outfiles.find(from);
	if (it == S.outfiles.end()) { errno = ENOENT; return -1; }
	std::string data = it->second;
	S.outfiles.erase(it);
	S.outfiles[to] = data;
	for (auto &e : S.fds) if (e.out && e.out->which && e.out->path == from) e.out->path = to;
	return 0;
}
NOINSTR int __wrap_open(const char *path, int flags, ...) {
	if (!S.in_sut) {
		va_list ap; va_start(ap, flags); int mode = va_arg(ap, int); va_end(ap);
		return __real_open(path, flags, mode);
	}
	ev(0x4f, hash_bytes(path, strlen(path)));
	if ((flags & O_ACCMODE) == O_RDONLY) {
		long k = S.res.nfopen++;
		if (const FaultB *f = find_fault("fopen", k)) { fired(F_FOPEN); errno = f->err ? f->err : ENOENT; return -1; }
		for (size_t i = 0; i < S.plan->files.size(); i++)
			if (alt_name(*S.plan, S.plan->files[i].name) == path) {
				InStream *in = new InStream{(int)i, 0};
				S.ins.push_back(in);
				int fd = 300 + (int)S.fds.size();
				S.fds.push_back(FdEnt{nullptr, fd, in, nullptr});
				return fd;
			}
		errno = ENOENT;
		return -1;
	}
	if (!(flags & O_CREAT) && !S.outfiles.count(path)) { errno = ENOENT; return -1; }
	if ((flags & O_TRUNC) || !S.outfiles.count(path)) S.outfiles[path].clear();
	OutStream *os = new OutStream{1, path};
	int fd = 300 + (int)S.fds.size();
	S.fds.push_back(FdEnt{nullptr, fd, nullptr, os});
	return fd;
}
NOINSTR int __wrap_close(int fd) {
	if (!S.in_sut) return __real_close(fd);
	for (size_t i = 0; i < S.fds.size(); i++) if (S.fds[i].fd == fd && !S.fds[i].f) { S.fds.erase(S.fds.begin() + (long)i); return 0; }
	if (fd_by_fd(fd)) return 0;
	errno = EBADF;
	return -1;
}
NOINSTR off_t __wrap_lseek(int fd, off_t off, int whence) {
	if (!S.in_sut) return __real_lseek(fd, off, whence);
	FdEnt *e = fd_by_fd(fd);
	if (!e) { errno = EBADF; return -1; }
	if (!e->in || (fd == 0 && S.plan->stdin_pipe)) { errno = ESPIPE; return -1; }
	off64_t p = off;
	if (in_seek(e->in, &p, whence) < 0) return -1;
	return (off_t)p;
}
NOINSTR int __wrap_fstat(int fd, struct stat *st) {
	if (!S.in_sut) return __real_fstat(fd, st);
	memset(st, 0, sizeof *st);
	FdEnt *e = fd_by_fd(fd);
	if (fd == 2) { st->st_mode = S_IFCHR | 0620; return 0; }
	if (!e) { errno = EBADF; return -1; }
	if (e->in) {
		if (fd == 0 && S.plan->stdin_pipe) { st->st_mode = S_IFIFO | 0600; return 0; }
		st->st_mode = S_IFREG | 0644;
		st->st_size = (off_t)S.plan->files[e->in->file].data.size();
		return 0;
	}
	// what standard output is (file, pipe, terminal) belongs to the environment: seeded
	if (e->out && e->out->which == 0) {
		fired(F_TRIPWIRE);
		static const mode_t kinds[] = {S_IFREG | 0644, S_IFIFO | 0600, S_IFCHR | 0620};
		st->st_mode = kinds[S.triprng.next() % 3];
		return 0;
	}
	st->st_mode = S_IFREG | 0644;
	st->st_size = e->out ? (off_t)S.outfiles[e->out->path].size() : 0;
	return 0;
}
NOINSTR int __wrap_stat(const char *path, struct stat *st) {
	if (!S.in_sut) return __real_stat(path, st);
	memset(st, 0, sizeof *st);
	for (auto &f : S.plan->files) if (alt_name(*S.plan, f.name) == path) { st->st_mode = S_IFREG | 0644; st->st_size = (off_t)f.data.size(); return 0; }
	auto it = S.outfiles.find(path);
	if (it != S.outfiles.end()) { st->st_mode = S_IFREG | 0644; st->st_size = (off_t)it->second.size(); return 0; }
	errno = ENOENT;
	return -1;
}
NOINSTR FILE *__wrap_fdopen(int fd, const char *mode) {
	if (!S.in_sut) return __real_fdopen(fd, mode);
	FdEnt *e = fd_by_fd(fd);
	if (!e) { errno = EBADF; return nullptr; }
	S.in_sut = false;
	FILE *f;
	if (e->in) {
		cookie_io_functions_t io = {in_read, nullptr, (fd == 0 && S.plan->stdin_pipe) ? nullptr : in_seek, nullptr};
		f = fopencookie(e->in, "r", io);
	} else {
		cookie_io_functions_t io = {nullptr, out_write, nullptr, nullptr};
		f = fopencookie(e->out, "w", io);
	}
	if (!e->f) e->f = f;
	else S.fds.push_back(FdEnt{f, fd, e->in, e->out});
	S.in_sut = true;
	return f;
}
#ifndef SIMB_SANITIZED  /* the sanitizer runtime, linked into this executable, calls this itself */
NOINSTR void __wrap__exit(int status) {
	if (!S.in_sut) __real__exit(status);
	// _exit: no atexit handlers, no flushing of stdio buffers
	ev(0x58, (uint64_t)status);
	finish(K_EXIT, status & 0xff);
}
#endif
NOINSTR void __wrap__Exit(int status) {
	if (!S.in_sut) __real__Exit(status);
	// _Exit (ISO C's name for _exit): no atexit handlers, no flushing of stdio buffers
	ev(0x58, (uint64_t)status);
	finish(K_EXIT, status & 0xff);
}
NOINSTR int __wrap_ftruncate(int fd, off_t len) {
	if (!S.in_sut) return __real_ftruncate(fd, len);
	FdEnt *e = fd_by_fd(fd);
	if (!e || !e->out) { errno = EBADF; return -1; }
	if (e->out->which == 0) {
		// standard output: a regular file can be truncated, a pipe or terminal cannot - the environment decides
		fired(F_TRIPWIRE);
		if (S.triprng.next() % 2) { errno = EINVAL; return -1; }
		S.sink[0].resize((size_t)len < S.sink[0].size() ? (size_t)len : S.sink[0].size());
		return 0;
	}
	std::string &d = S.outfiles[e->out->path];
	if ((size_t)len < d.size()) d.resize((size_t)len);
	else d.append((size_t)len - d.size(), '\0');
	return 0;
}
#ifndef SIMB_SANITIZED  /* the sanitizer runtime, linked into this executable, calls this itself */
NOINSTR int __wrap_getrlimit(int res, struct rlimit *rl) {
	if (!S.in_sut) return __real_getrlimit(res, rl);
	fired(F_TRIPWIRE);
	static const rlim_t vals[] = {1 << 20, 4 << 20, 8 << 20, 64 << 20, RLIM_INFINITY};
	rl->rlim_cur = vals[S.triprng.next() % 5];
	rl->rlim_max = RLIM_INFINITY;
	(void)res;
	return 0;
}
#endif

NOINSTR int __wrap_dup(int fd) {
	if (!S.in_sut) return __real_dup(fd);
	FdEnt *e = fd_by_fd(fd);
	if (!e) { errno = EBADF; return -1; }
	int nfd = 300 + (int)S.fds.size();
	FdEnt c = *e;
	c.f = nullptr;
	c.fd = nfd;
	S.fds.push_back(c);
	return nfd;
}

// more of the environment, seeded: what these return is not a function of the input text
NOINSTR char *__wrap_getcwd(char *buf, size_t n) {
	if (!S.in_sut) return __real_getcwd(buf, n);
	fired(F_TRIPWIRE);
	static const char *dirs[] = {"/", "/home/u/src", "/tmp/build-7", "/a/very/long/working/directory/name"};
	const char *d = dirs[S.triprng.next() % 4];
	if (!buf) { buf = (char *)__real_malloc(strlen(d) + 1); n = strlen(d) + 1; }
	if (strlen(d) + 1 > n) { errno = ERANGE; return nullptr; }
	strcpy(buf, d);
	return buf;
}
NOINSTR mode_t __wrap_umask(mode_t m) {
	if (!S.in_sut) return __real_umask(m);
	(void)m;
	fired(F_TRIPWIRE);
	static const mode_t ms[] = {022, 077, 002, 0};
	return ms[S.triprng.next() % 4];
}
NOINSTR int __wrap_gettimeofday(struct timeval *tv, void *tz) {
	if (!S.in_sut) return __real_gettimeofday(tv, tz);
	fired(F_TRIPWIRE);
	uint64_t v = S.triprng.next();
	if (tv) { tv->tv_sec = (time_t)(v % 2000000000ULL); tv->tv_usec = (suseconds_t)((v >> 33) % 1000000); }
	return 0;
}
NOINSTR clock_t __wrap_clock(void) {
	if (!S.in_sut) return __real_clock();
	fired(F_TRIPWIRE);
	return (clock_t)(S.triprng.next() % 100000000ULL);
}
NOINSTR uid_t __wrap_getuid(void) { if (S.in_sut) { fired(F_TRIPWIRE); return (uid_t)(S.triprng.next() % 3 * 1000); } return __real_getuid(); }
NOINSTR pid_t __wrap_getppid(void) { if (S.in_sut) { fired(F_TRIPWIRE); return (pid_t)(2 + S.triprng.next() % 30000); } return __real_getppid(); }
NOINSTR void __wrap_srand(unsigned s) { (void)s; if (S.in_sut) fired(F_TRIPWIRE); }
NOINSTR void __wrap_srandom(unsigned s) { (void)s; if (S.in_sut) fired(F_TRIPWIRE); }
#ifndef SIMB_SANITIZED  /* the sanitizer runtime, linked into this executable, calls this itself */
NOINSTR long __wrap_sysconf(int name) {
	if (!S.in_sut) return __real_sysconf(name);
	fired(F_TRIPWIRE);
	if (name == _SC_PAGESIZE) { static const long ps[] = {4096, 16384, 65536}; return ps[S.triprng.next() % 3]; }
	if (name == _SC_OPEN_MAX) { static const long om[] = {256, 1024, 1048576}; return om[S.triprng.next() % 3]; }
	return __real_sysconf(name);
}
#endif

// tripwires: cproc-qbe does not call these today.  If a change introduces a
// call, it gets seeded, varying values, so that any dependence of the output
// on them shows up as a C20 divergence instead of escaping the simulator.
NOINSTR char *__wrap_getenv(const char *name) {
	if (!S.in_sut) return __real_getenv(name);
	fired(F_TRIPWIRE);
	static char buf[32];
	uint64_t v = S.triprng.next();
	if (v % 3 == 0) return nullptr;
	snprintf(buf, sizeof buf, "%llx", (unsigned long long)v);
	return buf;
}
NOINSTR time_t __wrap_time(time_t *t) {
	if (!S.in_sut) return __real_time(t);
	fired(F_TRIPWIRE);
	time_t v = (time_t)(S.triprng.next() % 2000000000ULL);
	if (t) *t = v;
	return v;
}
NOINSTR int __wrap_clock_gettime(clockid_t c, struct timespec *ts) {
	(void)c;
	if (S.in_sut) fired(F_TRIPWIRE);
	uint64_t v = S.in_sut ? S.triprng.next() : 0;
	if (!S.in_sut) return __real_clock_gettime(c, ts);
	ts->tv_sec = (time_t)(v % 2000000000ULL);
	ts->tv_nsec = (long)((v >> 32) % 1000000000ULL);
	return 0;
}
NOINSTR int __wrap_rand(void) {
	if (S.in_sut) fired(F_TRIPWIRE);
	return (int)(S.triprng.next() & 0x7fffffff);
}
NOINSTR long __wrap_random(void) {
	if (S.in_sut) fired(F_TRIPWIRE);
	return (long)(S.triprng.next() & 0x7fffffff);
}
NOINSTR pid_t __wrap_getpid(void) {
	if (!S.in_sut) return __real_getpid();
	fired(F_TRIPWIRE);
	return (pid_t)(2 + S.triprng.next() % 30000);
}
NOINSTR char *__wrap_setlocale(int cat, const char *loc) {
	if (!S.in_sut) return __real_setlocale(cat, loc);
	fired(F_TRIPWIRE);
	// "" asks for the environment's locale: seeded among the locales installed here
	if (loc && !*loc) {
		static const char *ls[] = {"C", "C.utf8", "POSIX", "xx_XX"};
		// xx_XX: LC_NUMERIC with a decimal comma, compiled by the check with localedef (lib/build_b.py)
		const char *lp = __real_getenv("SIMB_LOCPATH");
		loc = ls[S.triprng.next() % (lp ? 4 : 3)];
		if (loc[0] == 'x') {
			S.in_sut = false;
			setenv("LOCPATH", lp, 1);
			char *r = __real_setlocale(cat, "C");
			if (cat == LC_ALL || cat == LC_NUMERIC) { if (__real_setlocale(LC_NUMERIC, "xx_XX")) ev(0x4c, 1); }
			S.in_sut = true;
			return r;
		}
	}
	return __real_setlocale(cat, loc);
}

}  // extern "C"

#ifdef SIMB_SANITIZED
extern "C" __attribute__((used)) NOINSTR const char *__asan_default_options() {
	return "exitcode=77:detect_leaks=0:abort_on_error=0:allocator_may_return_null=1:detect_stack_use_after_return=0:handle_abort=1:symbolize=1:malloc_fill_byte=165:max_malloc_fill_size=65536";
}
extern "C" __attribute__((used)) NOINSTR const char *__ubsan_default_options() {
	return "halt_on_error=1:exitcode=77:print_stacktrace=1";
}
#endif

namespace {
// What an uninitialised automatic variable contains is whatever earlier calls left on the
// stack - in a forked child, the worker's history.  Overwrite the region the compiler is
// about to use with the plan's fill pattern, so stack garbage is part of the plan too.
NOINSTR __attribute__((noinline)) void scrub_stack(void) {
	const size_t N = 768 * 1024;
	volatile unsigned char *p = (volatile unsigned char *)__builtin_alloca(N);
	uint64_t st = S.plan->alloc_seed ^ 0x5ca1ab1eULL;
	switch (S.plan->fill) {
	case 0: for (size_t i = 0; i < N; i++) p[i] = 0; break;
	case 1: for (size_t i = 0; i < N; i++) p[i] = 0xff; break;
	case 2: for (size_t i = 0; i < N; i++) p[i] = 0xa5; break;
	default: for (size_t i = 0; i < N; i++) { if ((i & 7) == 0) st = splitmix64(st); p[i] = (unsigned char)(st >> ((i & 7) * 8)); }
	}
}

// noinline + alloca: shift every stack address of the run by a seeded amount
NOINSTR __attribute__((noinline)) int call_main(int argc, char **argv, int shift) {
	volatile char *pad = (volatile char *)__builtin_alloca((size_t)shift + 16);
	pad[0] = 1;
	pad[shift] = 2;
	scrub_stack();
	return cproc_qbe_main(argc, argv);
}
}  // namespace

// runs in the forked child
NOINSTR static void child_run(const Plan &p, int resfd, bool want_sink, bool want_cov) {
	S.plan = &p;
	S.resfd = resfd;
	S.want_sink = want_sink;
	S.want_cov = want_cov;
	S.arng = Rng(p.alloc_seed);
	S.iorng = Rng(p.io_seed);
	S.triprng = Rng(p.trip_seed);
	size_t inbytes = 0;
	for (auto &f : p.files) inbytes += f.data.size();
	S.budget_steps = 2000000 + 4000 * (uint64_t)inbytes;
	uint64_t bd = 10000 + 64 * (uint64_t)inbytes;
	S.budget_depth = bd > 4000000 ? 4000000 : (uint32_t)bd;
#ifndef SIMB_SANITIZED
	S.lo = ARENA_BASE + 65536;
	S.hi = ARENA_BASE + ARENA_SIZE - 65536;
	{
		static char altstack[1 << 16];
		stack_t ss;
		ss.ss_sp = altstack; ss.ss_size = sizeof altstack; ss.ss_flags = 0;
		sigaltstack(&ss, nullptr);
		struct sigaction sa;
		memset(&sa, 0, sizeof sa);
		sa.sa_handler = on_signal;
		sa.sa_flags = SA_ONSTACK | SA_NODEFER;
		int sigs[] = {SIGSEGV, SIGBUS, SIGFPE, SIGILL, SIGABRT, SIGVTALRM};
		for (int s : sigs) sigaction(s, &sa, nullptr);
	}
#else
	{
		struct sigaction sa;
		memset(&sa, 0, sizeof sa);
		sa.sa_handler = on_signal;
		sigaction(SIGVTALRM, &sa, nullptr);
	}
#endif
	struct itimerval it;
	memset(&it, 0, sizeof it);
	it.it_value.tv_sec = 20 + (time_t)(inbytes / 20000);  // CPU seconds; megabyte inputs get proportionally more (the step budget is the real bound)
	setitimer(ITIMER_VIRTUAL, &it, nullptr);
	signal(SIGPIPE, SIG_IGN);

	// command line
	static const char *argv0s[] = {"cproc-qbe", "/usr/local/bin/cproc-qbe", "./cproc-qbe", "x86_64-cproc-qbe", "aarch64-linux-musl-cproc-qbe", "riscv64-cproc-qbe", "cc1"};
	std::vector<std::string> args;
	args.push_back(argv0s[(unsigned)p.argv0 % 7]);
	// the same options spelled differently must mean the same
	if (p.argstyle == 1) {
		if (p.pponly && p.target > 0) { args.push_back(std::string("-Et") + TARGETS[p.target]); }
		else { if (p.target > 0) args.push_back(std::string("-t") + TARGETS[p.target]); if (p.pponly) args.push_back("-E"); }
		if (p.dash_o) args.push_back("-o/sim/out");
	} else {
		if (p.argstyle == 3 && p.dash_o) { args.push_back("-o"); args.push_back("/sim/first-choice"); }
		if (p.target > 0) { args.push_back("-t"); args.push_back(TARGETS[p.target]); }
		if (p.pponly) args.push_back("-E");
		if (p.dash_o) { args.push_back("-o"); args.push_back("/sim/out"); }
		if (p.argstyle == 2) args.push_back("--");
	}
	bool use_stdin = p.via_stdin && p.files.size() == 1;
	if (!use_stdin) for (auto &f : p.files) args.push_back(alt_name(p, f.name));
	std::vector<char *> av;
	for (auto &a : args) av.push_back(&a[0]);
	av.push_back(nullptr);

	// streams
	S.orig_stdout = stdout; S.orig_stderr = stderr; S.orig_stdin = stdin;
	stdout = make_out(0);
	{
		cookie_io_functions_t io = {nullptr, err_write, nullptr, nullptr};
		FILE *e = fopencookie(nullptr, "w", io);
		setvbuf(e, nullptr, _IONBF, 0);
		stderr = e;
	}
	if (use_stdin) stdin = make_in(0, !p.stdin_pipe);
	else {
		// nothing to read on the real stdin
		cookie_io_functions_t io = {in_read, nullptr, nullptr, nullptr};
		(void)io;
	}
	S.res.ev_hash = 0x1234;
	if (setjmp(S.jb) == 0) {
		S.in_sut = true;
		int r = call_main((int)args.size(), av.data(), p.stack_shift);
		// returning from main is exit(r)
		__wrap_exit(r);
	}
	S.in_sut = false;
#ifndef SIMB_SANITIZED
	if (S.res.kind == K_EXIT) check_all_canaries();
#endif
	size_t nl = S.errbuf.find('\n');
	if (!S.res.msg[0]) snprintf(S.res.msg, sizeof S.res.msg, "%s", S.errbuf.substr(0, nl == std::string::npos ? S.errbuf.size() : nl).c_str());
	send_result_and_exit();
}

static bool g_arena_mapped = false;
static std::vector<std::pair<uintptr_t, std::string>> g_syms;

bool under_memcheck() { static int v = -1; if (v < 0) v = RUNNING_ON_VALGRIND ? 1 : 0; return v == 1; }

Outcome run_plan(const Plan &p, bool want_sink, bool want_cov) {
	Outcome o;
#ifndef SIMB_SANITIZED
	if (!g_arena_mapped) {
		void *m = mmap(ARENA_BASE, ARENA_SIZE, PROT_READ | PROT_WRITE, MAP_PRIVATE | MAP_ANONYMOUS | MAP_NORESERVE | MAP_FIXED_NOREPLACE, -1, 0);
		if (m != (void *)ARENA_BASE) { perror("mmap arena"); exit(2); }
		g_arena_mapped = true;
	}
#endif
	int pfd[2], efd[2] = {-1, -1};
	if (pipe(pfd) < 0) { perror("pipe"); exit(2); }
	bool san = sanitized_build();
	if (san && pipe(efd) < 0) { perror("pipe"); exit(2); }
	fflush(nullptr);
	pid_t pid = fork();
	if (pid < 0) { perror("fork"); exit(2); }
	if (pid == 0) {
		close(pfd[0]);
		if (san) { close(efd[0]); dup2(efd[1], 2); close(efd[1]); }
		else { int dn = open("/dev/null", O_WRONLY); if (dn >= 0) { dup2(dn, 2); close(dn); } }
		child_run(p, pfd[1], want_sink, want_cov);
		_exit(3);
	}
	close(pfd[1]);
	if (san) close(efd[1]);
	std::string buf;
	char tmp[65536];
	ssize_t n;
	while ((n = read(pfd[0], tmp, sizeof tmp)) > 0) buf.append(tmp, (size_t)n);
	close(pfd[0]);
	if (san) {
		while ((n = read(efd[0], tmp, sizeof tmp)) > 0) if (o.report.size() < (1 << 20)) o.report.append(tmp, (size_t)n);
		close(efd[0]);
	}
	int st = 0;
	while (waitpid(pid, &st, 0) < 0 && errno == EINTR) {}
	std::string vglog;
	if (under_memcheck()) {
		// valgrind was started with --log-file=$SIMB_VG_LOGDIR/vg.%p: one file per forked child
		if (const char *d = getenv("SIMB_VG_LOGDIR")) {
			std::string lp = std::string(d) + "/vg." + std::to_string((long)pid);
			FILE *lf = fopen(lp.c_str(), "r");
			if (lf) { while ((n = (ssize_t)fread(tmp, 1, sizeof tmp, lf)) > 0) if (vglog.size() < (1 << 18)) vglog.append(tmp, (size_t)n); fclose(lf); }
			unlink(lp.c_str());
		}
	}
	if (buf.size() >= sizeof(Res) && WIFEXITED(st) && WEXITSTATUS(st) == 0) {
		memcpy(&o.r, buf.data(), sizeof(Res));
		size_t off = sizeof(Res);
		if (want_cov) {
			for (uint32_t i = 0; i < o.r.nfn && off + sizeof(void *) <= buf.size(); i++) {
				void *q;
				memcpy(&q, buf.data() + off, sizeof q);
				o.fns.push_back(q);
				off += sizeof q;
			}
		}
		if (want_sink) o.sink = buf.substr(off);
	} else {
		o.r = Res();
		if (WIFEXITED(st) && WEXITSTATUS(st) == 77) {
			o.r.kind = K_SANITIZER;
			size_t s = o.report.find("SUMMARY:");
			std::string line = s == std::string::npos ? o.report.substr(0, 180) : o.report.substr(s, o.report.find('\n', s) - s);
			snprintf(o.r.msg, sizeof o.r.msg, "%s", line.c_str());
		} else if (WIFSIGNALED(st)) {
			o.r.kind = K_SIGNAL;
			o.r.sig = WTERMSIG(st);
			snprintf(o.r.msg, sizeof o.r.msg, "child killed by signal %d outside the handler", WTERMSIG(st));
		} else {
			o.r.kind = K_HARNESS;
			snprintf(o.r.msg, sizeof o.r.msg, "child ended with wait status 0x%x and %zu result bytes", st, buf.size());
		}
	}
	// signature: outcome kind + innermost cproc functions
	{
		std::string sig = kind_name[o.r.kind];
		if (o.r.kind == K_SIGNAL) sig += std::string(":") + (o.r.sig == SIGSEGV ? "SIGSEGV" : o.r.sig == SIGFPE ? "SIGFPE" : o.r.sig == SIGBUS ? "SIGBUS" : o.r.sig == SIGABRT ? "SIGABRT" : o.r.sig == SIGILL ? "SIGILL" : std::to_string(o.r.sig));
		if (o.r.kind == K_EXIT) sig += ":" + std::to_string(o.r.status);
		else if (o.r.kind == K_SANITIZER) {
			// "SUMMARY: AddressSanitizer: heap-use-after-free /repo/scan.c:464:23 in scan"
			std::string m = o.r.msg;
			size_t c = m.find(": ", 9);
			std::string what = c == std::string::npos ? m : m.substr(c + 2);
			sig += ":" + what.substr(0, what.find(' '));
			// innermost two frames that are cproc functions (not the harness, not libc, not the sanitizer runtime)
			int nf = 0;
			size_t pos = 0;
			while (nf < 2 && (pos = o.report.find("\n    #", pos)) != std::string::npos) {
				size_t eol = o.report.find('\n', pos + 1);
				std::string line = o.report.substr(pos + 1, eol - pos - 1);
				pos = eol == std::string::npos ? o.report.size() : eol;
				size_t in = line.find(" in ");
				if (in == std::string::npos) continue;
				size_t fe = line.find(' ', in + 4);
				std::string fn = line.substr(in + 4, fe == std::string::npos ? std::string::npos : fe - in - 4);
				std::string rest = fe == std::string::npos ? "" : line.substr(fe);
				if (rest.find("/simB/") != std::string::npos || fn.compare(0, 4, "sb::") == 0 || fn.compare(0, 2, "__") == 0 || rest.find(".c:") == std::string::npos) { if (nf) break; else continue; }
				sig += (nf ? "<" : " ") + fn;
				nf++;
			}
		} else {
			if (o.r.stack[0]) sig += " " + fn_name(o.r.stack[0]);
			if (o.r.stack[1]) sig += "<" + fn_name(o.r.stack[1]);
		}
		o.signature = sig;
	}
	if (o.r.vg_errors && !vglog.empty()) {
		// "==pid== Conditional jump or move depends on uninitialised value(s)" / "==pid==    at 0x...: fn (file.c:123)"
		std::vector<std::string> lines;
		size_t pos = 0;
		while (pos < vglog.size()) {
			size_t eol = vglog.find('\n', pos);
			std::string l = vglog.substr(pos, eol == std::string::npos ? std::string::npos : eol - pos);
			pos = eol == std::string::npos ? vglog.size() : eol + 1;
			size_t e2 = l.find("== ");
			if (l.compare(0, 2, "==") == 0 && e2 != std::string::npos) l = l.substr(e2 + 3); else if (l.compare(0, 2, "==") == 0) l = "";
			lines.push_back(l);
		}
		std::string kind;
		int nf = 0;
		for (size_t i = 0; i < lines.size(); i++) {
			const std::string &l = lines[i];
			if (kind.empty()) {
				if (l.empty() || l[0] == ' ') continue;
				kind = l.find("Conditional jump") != std::string::npos ? "branch" : l.find("Use of uninitialised") != std::string::npos ? "use" :
				       l.find("Uninitialised byte") != std::string::npos || l.find("uninitialised byte") != std::string::npos ? "output-byte" : l.find("Uninitialised value") != std::string::npos ? "exit-status" :
				       l.find("Invalid read") != std::string::npos ? "invalid-read" : l.find("Invalid write") != std::string::npos ? "invalid-write" : l.substr(0, 40);
				o.vg_sig = kind;
				o.vg_text = l;
				continue;
			}
			if (l.empty()) break;  // end of the first error
			if (o.vg_text.size() < 1500) o.vg_text += "\n" + l;
			size_t c = l.find(": ");
			if ((l.find("at 0x") == std::string::npos && l.find("by 0x") == std::string::npos) || c == std::string::npos || nf >= 2) continue;
			std::string rest = l.substr(c + 2);
			size_t sp = rest.find(' ');
			std::string fn = rest.substr(0, sp), where = sp == std::string::npos ? "" : rest.substr(sp);
			// cproc's functions only: compiled from a .c file, not the harness, not libc
			if (where.find(".c:") == std::string::npos || fn.compare(0, 2, "__") == 0 || fn.compare(0, 4, "sb::") == 0 || where.find("(in ") != std::string::npos) continue;
			bool ours = false;
			for (auto &sy : g_syms) if (sy.second == fn) { ours = true; break; }
			if (!ours) continue;
			o.vg_sig += (nf ? "<" : " ") + fn;
			nf++;
		}
	} else if (o.r.vg_errors) o.vg_sig = "unattributed";
	return o;
}

// ---------------------------------------------------------------- symbols

void symbols_init(const char *self) {
	std::string cmd = std::string("nm -n --defined-only ") + self + " 2>/dev/null";
	FILE *f = popen(cmd.c_str(), "r");
	if (!f) return;
	char line[512];
	while (fgets(line, sizeof line, f)) {
		unsigned long long a;
		char t;
		char name[400];
		if (sscanf(line, "%llx %c %399s", &a, &t, name) == 3 && (t == 't' || t == 'T')) g_syms.emplace_back((uintptr_t)a, name);
	}
	pclose(f);
}

static uintptr_t g_slide = 0;
static bool g_slide_known = false;

std::string fn_name(void *addr) {
	if (!addr) return "?";
	if (!g_slide_known) {
		// PIE: find load bias from a known symbol
		g_slide_known = true;
		for (auto &s : g_syms) if (s.second == "cproc_qbe_main") g_slide = (uintptr_t)&cproc_qbe_main - s.first;
	}
	uintptr_t a = (uintptr_t)addr - g_slide;
	size_t lo = 0, hi = g_syms.size();
	while (lo + 1 < hi) {
		size_t mid = (lo + hi) / 2;
		if (g_syms[mid].first <= a) lo = mid; else hi = mid;
	}
	if (g_syms.empty() || g_syms[lo].first > a) return "?";
	return g_syms[lo].second;
}

}  // namespace sb
