// Simulator B worker: plan generation, oracles for C03 (clause), C19, C20,
// exhaustive single-fault spaces, minimisation, replay.
#include "simb.hpp"
#include <algorithm>
#include <functional>
#include <cerrno>
#include <csignal>
#include <dirent.h>
#include <sys/personality.h>
#include <sys/resource.h>
#include <unistd.h>

using namespace sb;

namespace sb {

// ------------------------------------------------------------ plan <-> JSON
Json Plan::to_json(bool with_data) const {
	Json j = Json::obj();
	j.set("simulator", "B").set("prop", prop).set("label", label);
	j.set("origin_seed", (unsigned long long)origin_seed).set("origin_index", (unsigned long long)origin_index);
	Json fs = Json::arr();
	for (auto &f : files) {
		Json o = Json::obj();
		o.set("name", f.name).set("source", f.source);
		if (with_data || f.source == "inline") o.set("data", f.data);
		fs.push(o);
	}
	j.set("files", fs);
	j.set("target", target).set("pponly", pponly).set("via_stdin", via_stdin).set("stdin_pipe", stdin_pipe).set("dash_o", dash_o).set("stack_shift", stack_shift).set("argv0", argv0).set("alt_name", alt_name).set("argstyle", argstyle);
	j.set("placement", placement).set("gapmax", gapmax).set("fill", fill).set("free_policy", free_policy).set("realloc_policy", realloc_policy).set("zero_policy", zero_policy);
	j.set("alloc_seed", hex64(alloc_seed)).set("chunk", chunk).set("outbuf", outbuf).set("io_seed", hex64(io_seed)).set("trip_seed", hex64(trip_seed));
	Json fl = Json::arr();
	for (auto &f : faults) fl.push(Json::obj().set("seam", f.seam).set("index", (long long)f.index).set("errno", f.err).set("prefix", f.prefix).set("persistent", f.persistent).set("bit", f.bit).set("file", f.file));
	j.set("faults", fl);
	return j;
}

static std::string g_repo = "/repo";

static std::string g_featdir, g_owndir;

static bool resolve(VFile &f, const std::string &repo) {
	if (f.source.compare(0, 7, "corpus:") == 0) return read_file(repo + "/" + f.source.substr(7), f.data);
	if (f.source.compare(0, 5, "feat:") == 0) return read_file(g_featdir + "/" + f.source.substr(5), f.data);
	if (f.source.compare(0, 4, "own:") == 0) return read_file(g_owndir + "/" + f.source.substr(4), f.data);
	if (f.source.compare(0, 7, "stress:") == 0) {
		size_t c = f.source.find(':', 7);
		if (c == std::string::npos) return false;
		f.data = stress_input(f.source.substr(7, c - 7), atol(f.source.c_str() + c + 1));
		return true;
	}
	return true;
}

bool Plan::from_json(const Json &j, Plan &p, const std::string &repo) {
	p = Plan();
	p.prop = j.gets("prop");
	p.label = j.gets("label");
	p.origin_seed = j.getu("origin_seed");
	p.origin_index = j.getu("origin_index");
	const Json *fs = j.get("files");
	if (!fs) return false;
	for (auto &f : fs->a) {
		VFile v;
		v.name = f.gets("name");
		v.source = f.gets("source", "inline");
		if (f.has("data")) v.data = f.gets("data");
		else if (!resolve(v, repo)) return false;
		p.files.push_back(v);
	}
	p.target = (int)j.geti("target", 1);
	p.pponly = j.getb("pponly");
	p.via_stdin = j.getb("via_stdin");
	p.stdin_pipe = j.getb("stdin_pipe");
	p.dash_o = j.getb("dash_o");
	p.stack_shift = (int)j.geti("stack_shift");
	p.argv0 = (int)j.geti("argv0");
	p.alt_name = (int)j.geti("alt_name");
	p.argstyle = (int)j.geti("argstyle");
	p.placement = (int)j.geti("placement");
	p.gapmax = (int)j.geti("gapmax");
	p.fill = (int)j.geti("fill");
	p.free_policy = (int)j.geti("free_policy");
	p.realloc_policy = (int)j.geti("realloc_policy");
	p.zero_policy = (int)j.geti("zero_policy");
	p.alloc_seed = strtoull(j.gets("alloc_seed", "0").c_str(), nullptr, 16);
	p.chunk = (int)j.geti("chunk");
	p.outbuf = (int)j.geti("outbuf");
	p.io_seed = strtoull(j.gets("io_seed", "0").c_str(), nullptr, 16);
	p.trip_seed = strtoull(j.gets("trip_seed", "0").c_str(), nullptr, 16);
	if (const Json *fl = j.get("faults"))
		for (auto &f : fl->a) {
			FaultB b;
			b.seam = f.gets("seam");
			b.index = (long)f.geti("index");
			b.err = (int)f.geti("errno");
			b.prefix = (int)f.geti("prefix");
			b.persistent = f.getb("persistent");
			b.bit = (int)f.geti("bit");
			b.file = (int)f.geti("file");
			p.faults.push_back(b);
		}
	return true;
}

bool Plan::is_null_schedule() const {
	return !via_stdin && !stdin_pipe && !argv0 && !alt_name && !argstyle && !dash_o && !stack_shift && !placement && !gapmax && !fill && !free_policy && !realloc_policy && !zero_policy && !chunk && !outbuf && faults.empty();
}

// ------------------------------------------------------------ stress family
std::string stress_input(const std::string &fam, long n) {
	std::string s;
	if (n < 0) n = 0;
	if (fam == "longident") {
		s = "int ";
		s.append((size_t)n, 'a');
		s += " = 1;\nint f(void) { return ";
		s.append((size_t)n, 'a');
		s += "; }\n";
	} else if (fam == "longstring") {
		s = "char s[] = \"";
		for (long i = 0; i < n; i++) s += (char)('a' + i % 26);
		s += "\";\n";
	} else if (fam == "manynames") {
		for (long i = 0; i < n; i++) s += "int v" + std::to_string(i) + " = " + std::to_string(i) + ";\n";
		s += "int sum(void) { return v0";
		for (long i = 1; i < n; i += (n / 8 + 1)) s += " + v" + std::to_string(i);
		s += "; }\n";
	} else if (fam == "localnames") {
		s = "int f(void) {\n";
		for (long i = 0; i < n; i++) s += "\tint l" + std::to_string(i) + " = " + std::to_string(i) + ";\n";
		s += "\treturn l0;\n}\n";
	} else if (fam == "switch") {
		s = "int f(int x) {\n\tswitch (x) {\n";
		for (long i = 0; i < n; i++) s += "\tcase " + std::to_string((i * 7919) % (n * 3 + 1) * 2 + (i & 1 ? -1000 : 0)) + ": return " + std::to_string(i) + ";\n";
		s += "\tdefault: return -1;\n\t}\n}\n";
	} else if (fam == "switchseq") {
		s = "int f(int x) {\n\tswitch (x) {\n";
		for (long i = 0; i < n; i++) s += "\tcase " + std::to_string(i) + ": return " + std::to_string(i) + ";\n";
		s += "\t}\n\treturn 0;\n}\n";
	} else if (fam == "designators") {
		// struct nested n deep, initialised through a designator path of depth n
		for (long i = 0; i < n; i++) s += "struct s" + std::to_string(i) + " { " + (i ? "struct s" + std::to_string(i - 1) + " m; " : "int m; ") + "int pad; };\n";
		s += "struct s" + std::to_string(n > 0 ? n - 1 : 0) + " x = { ";
		for (long i = 0; i < n; i++) s += ".m";
		s += " = 42 };\n";
		if (n == 0) s = "int x = 42;\n";
	} else if (fam == "bracenest") {
		s = "int a";
		for (long i = 0; i < n; i++) s += "[1]";
		s += " = ";
		for (long i = 0; i < n; i++) s += "{";
		s += "7";
		for (long i = 0; i < n; i++) s += "}";
		s += ";\n";
	} else if (fam == "parens") {
		s = "int x = ";
		s.append((size_t)n, '(');
		s += "1";
		s.append((size_t)n, ')');
		s += ";\n";
	} else if (fam == "blocks") {
		s = "void f(void) {\n";
		for (long i = 0; i < n; i++) s += "{";
		s += "int y = 1; (void)y;";
		for (long i = 0; i < n; i++) s += "}";
		s += "\n}\n";
	} else if (fam == "ptrdecl") {
		s = "int ";
		s.append((size_t)n, '*');
		s += "p;\n";
	} else if (fam == "macroargs") {
		s = "#define F(";
		for (long i = 0; i < n; i++) s += (i ? ", a" : "a") + std::to_string(i);
		s += ") ";
		for (long i = 0; i < n; i++) s += (i ? " + a" : "a") + std::to_string(i);
		s += "\nint x = F(";
		for (long i = 0; i < n; i++) s += (i ? ", " : "") + std::to_string(i);
		s += ");\n";
		if (n == 0) s = "#define F() 1\nint x = F();\n";
	} else if (fam == "macrobody") {
		s = "#define B";
		for (long i = 0; i < n; i++) s += " + " + std::to_string(i);
		s += "\nint x = 0 B;\nint y = 1 B B;\n";
	} else if (fam == "macronest") {
		s = "#define M0 1\n";
		for (long i = 1; i <= n; i++) s += "#define M" + std::to_string(i) + " (M" + std::to_string(i - 1) + " + M" + std::to_string(i - 1) + ")\n";
		s += "int x = M" + std::to_string(n > 12 ? 12 : n) + ";\n";
	} else if (fam == "exprchain") {
		s = "int f(int a) { return a";
		for (long i = 0; i < n; i++) s += " + " + std::to_string(i);
		s += "; }\n";
	} else if (fam == "funcs") {
		for (long i = 0; i < n; i++) s += "static int g" + std::to_string(i) + "(int a) { return a * " + std::to_string(i) + (i ? " + g" + std::to_string(i - 1) + "(a)" : "") + "; }\n";
		s += "int main(void) { return g" + std::to_string(n > 0 ? n - 1 : 0) + "(3); }\n";
		if (n == 0) s = "int main(void) { return 0; }\n";
	} else if (fam == "strings") {
		s = "const char *t[] = {\n";
		for (long i = 0; i < n; i++) s += "\t\"str" + std::to_string(i) + "\\n\\x41\\101\" \"cat\",\n";
		s += "};\n";
	} else if (fam == "longcomment") {
		s = "/* ";
		s.append((size_t)n, 'c');
		s += " */ int x;\n// ";
		s.append((size_t)n, 'd');
		s += "\nint y;\n";
	} else if (fam == "structmembers") {
		s = "struct big {\n";
		for (long i = 0; i < n; i++) s += "\tint m" + std::to_string(i) + (i % 5 == 0 ? " : 3" : "") + ";\n";
		s += "};\nstruct big b = { 1, 2 };\nint get(struct big *p) { return p->m" + std::to_string(n > 0 ? n - 1 : 0) + "; }\n";
		if (n == 0) s = "struct e { int x; } b;\n";
	} else if (fam == "opmatrix") {
		// every operator / conversion / statement context against every category of operand type:
		// knob = ((form * NT) + i) * NT + j.  Most combinations are constraint violations - the
		// point is that each is either compiled or diagnosed, never a crash.
		struct Ty { const char *decl; const char *expr; };
		static const Ty T[] = {
			{"char v%d;", "v%d"}, {"unsigned char v%d;", "v%d"}, {"short v%d;", "v%d"}, {"int v%d;", "v%d"},
			{"unsigned v%d;", "v%d"}, {"long v%d;", "v%d"}, {"unsigned long long v%d;", "v%d"}, {"_Bool v%d;", "v%d"},
			{"float v%d;", "v%d"}, {"double v%d;", "v%d"}, {"int *v%d;", "v%d"}, {"void *v%d;", "v%d"},
			{"const char *v%d;", "v%d"}, {"struct S { int a; char b; } v%d;", "v%d"}, {"union U { int a; double d; } v%d;", "v%d"},
			{"enum E { EA, EB } v%d;", "v%d"}, {"int v%d[3];", "v%d"}, {"int v%d(void);", "v%d"}, {"void v%d(void);", "v%d()"},
			{"int v%d_unused;", "nullptr"}, {"struct BF { int f : 3; unsigned g : 5; } v%d;", "v%d.f"}, {"struct INC *v%d;", "*v%d"},
			{"int (*v%d)(int);", "v%d"}, {"long double v%d;", "v%d"}, {"int v%d_unused2;", "\"str\""}, {"int v%d_unused3;", "'c'"},
			{"int v%d_unused4;", "1.5f"}, {"int v%d_unused5;", "0"}, {"int v%d_unused6;", "(void)0"}, {"struct S2 { int x[2]; struct { int y; }; } *v%d;", "v%d->y"},
		};
		const long NT = (long)(sizeof T / sizeof *T);
		static const char *binops[] = {"+", "-", "*", "/", "%", "<<", ">>", "<", ">", "<=", ">=", "==", "!=", "&", "|", "^", "&&", "||", ","};
		static const char *asgops[] = {"=", "+=", "-=", "*=", "/=", "%=", "<<=", ">>=", "&=", "|=", "^="};
		static const char *unops[] = {"-", "+", "!", "~", "*", "&", "++", "--", "sizeof ", "_Alignof ", "(void)", "post++", "post--"};
		const long NB = 19, NA = 11, NU = 13;
		long j = n % NT, i = (n / NT) % NT, form = n / (NT * NT);
		auto decl = [&](long t, int id) { char b[160]; std::string d = T[t].decl; std::string r; for (size_t k = 0; k < d.size(); k++) { if (d[k] == '%' && k + 1 < d.size() && d[k + 1] == 'd') { r += std::to_string(id); k++; } else r += d[k]; } (void)b; return r; };
		auto expr = [&](long t, int id) { std::string d = T[t].expr; std::string r; for (size_t k = 0; k < d.size(); k++) { if (d[k] == '%' && k + 1 < d.size() && d[k + 1] == 'd') { r += std::to_string(id); k++; } else r += d[k]; } return r; };
		// distinct tag names per operand so that the same aggregate type can appear twice
		auto fix = [&](std::string d, int id) { for (const char *tag : {"struct S ", "union U ", "enum E ", "struct BF ", "struct S2 "}) { size_t p = d.find(tag); if (p != std::string::npos) d.insert(p + strlen(tag) - 1, std::to_string(id)); } size_t q; while ((q = d.find("EA")) != std::string::npos) d.replace(q, 2, "XA" + std::to_string(id)); while ((q = d.find("EB")) != std::string::npos) d.replace(q, 2, "XB" + std::to_string(id)); return d; };
		s = fix(decl(i, 1), 1) + "\n" + fix(decl(j, 2), 2) + "\n";
		std::string a = expr(i, 1), b = expr(j, 2);
		if (form < NB) s += "void f(void) { (void)(" + a + " " + binops[form] + " " + b + "); }\n";
		else if (form < NB + NA) s += "void f(void) { " + a + " " + asgops[form - NB] + " " + b + "; }\n";
		else if (form < NB + NA + NU) {
			std::string u = unops[form - NB - NA];
			if (u.compare(0, 4, "post") == 0) s += "void f(void) { (void)(" + a + u.substr(4) + "); (void)(" + b + u.substr(4) + "); }\n";
			else s += "void f(void) { (void)(" + u + a + "); (void)" + u + "(" + b + "); }\n";
		} else {
			switch (form - NB - NA - NU) {
			case 0: s += "void f(void) { (void)(" + a + " ? " + b + " : " + a + "); (void)(" + b + " ? " + a + " : " + b + "); }\n"; break;
			case 1: s += "void f(void) { (void)((typeof(" + a + "))" + b + "); }\n"; break;
			case 2: s += "typeof(" + a + ") g(typeof(" + b + ") p) { return p; }\n"; break;
			case 3: s += "void g(typeof(" + a + ") p); void f(void) { g(" + b + "); }\n"; break;
			case 4: s += "void f(void) { typeof(" + a + ") loc = " + b + "; (void)loc; }\n"; break;
			case 5: s += "typeof(" + a + ") glob = " + b + ";\n"; break;
			case 6: s += "void f(void) { if (" + a + ") { while (" + b + ") break; } }\n"; break;
			case 7: s += "int f(void) { switch (" + a + ") { case 1: return 1; default: for (; " + b + ";) return 2; } return 0; }\n"; break;
			case 8: s += "void f(void) { (void)(" + a + ")[" + b + "]; }\n"; break;
			case 9: s += "void f(void) { (void)(" + a + ").a; (void)(" + b + ")->a; }\n"; break;
			case 10: s += "void f(void) { (void)" + a + "(" + b + "); }\n"; break;
			case 11: s += "void f(void) { typeof(" + a + ") arr[2] = { " + b + " }; struct W { typeof(" + b + ") m; int n; } w = { " + a + " }; (void)arr; (void)w; }\n"; break;
			case 12: s += "_Static_assert(sizeof(" + a + ") + _Alignof(typeof(" + b + ")), \"x\");\nint z = _Generic(" + a + ", typeof(" + b + "): 1, default: 2);\n"; break;
			case 13: s += "void f(int n) { typeof(" + a + ") vla[n]; (void)sizeof(vla); (void)(vla + " + b + "); }\n"; break;
			case 14: s += "void f(void) { do (void)" + a + "; while (!" + b + "); }\nint g(void) { return " + a + "; }\n"; break;
			default: s += "void f(void) { __builtin_va_list ap; (void)__builtin_va_arg(ap, typeof(" + a + ")); (void)__builtin_expect(" + a + ", " + b + "); (void)__builtin_constant_p(" + b + "); }\n"; break;
			}
		}
	} else if (fam == "switchfib") {
		// case labels inserted in level order of a minimal AVL (Fibonacci) tree of height n:
		// the tallest tree a given number of labels can produce, built without a single rotation
		struct Node { long l, r, key; };
		std::vector<Node> nodes;
		std::vector<long> memo((size_t)n + 2, -1);
		// build shape iteratively: tree(h) = node(tree(h-1), tree(h-2)); shapes are shared, keys assigned by in-order walk
		std::function<long(long)> build = [&](long h) -> long {
			if (h <= 0) return -1;
			Node nd{build(h - 1), build(h - 2), 0};
			nodes.push_back(nd);
			return (long)nodes.size() - 1;
		};
		long root = build(n);
		long next = 0;
		std::vector<std::pair<long, int>> st;
		if (root >= 0) st.push_back({root, 0});
		while (!st.empty()) {
			auto &top = st.back();
			if (top.second == 0) { top.second = 1; if (nodes[top.first].l >= 0) st.push_back({nodes[top.first].l, 0}); }
			else if (top.second == 1) { nodes[top.first].key = next++; top.second = 2; long r = nodes[top.first].r; if (r >= 0) st.push_back({r, 0}); }
			else st.pop_back();
		}
		s = "int f(long x) {\n\tswitch (x) {\n";
		std::vector<long> q;
		if (root >= 0) q.push_back(root);
		for (size_t i = 0; i < q.size(); i++) {
			const Node &nd = nodes[q[i]];
			s += "\tcase " + std::to_string(nd.key) + ": return " + std::to_string(nd.key & 7) + ";\n";
			if (nd.l >= 0) q.push_back(nd.l);
			if (nd.r >= 0) q.push_back(nd.r);
		}
		s += "\t}\n\treturn -1;\n}\n";
	} else if (fam == "anondesig") {
		// a member reached through n levels of anonymous structs/unions: the designator path grows one level per nesting
		s = "struct s { ";
		for (long i = 0; i < n; i++) s += (i & 1) ? "union { " : "struct { ";
		s += "int x; int y; ";
		for (long i = 0; i < n; i++) s += "}; ";
		s += "int z; } v = { .x = 1, .y = 2, .z = 3 };\nstruct s w = { .z = 4, .nosuch = 5 };\n";
	} else if (fam == "mixdesig") {
		// n array levels above a struct with (33 - n) anonymous levels
		long an = 33 - n;
		if (an < 0) an = 0;
		s = "struct t { ";
		for (long i = 0; i < an; i++) s += "struct { ";
		s += "int x; ";
		for (long i = 0; i < an; i++) s += "}; ";
		s += "};\nstruct t a";
		for (long i = 0; i < n; i++) s += "[1]";
		s += " = { ";
		for (long i = 0; i < n; i++) s += "[0]";
		s += ".x = 7 };\n";
	} else if (fam == "macrorepl") {
		// replacement list of n tokens, then the # operator: crosses the growth thresholds of the token array
		s = "#define M(x)";
		for (long i = 0; i < n; i++) s += " t" + std::to_string(i);
		s += " #x\nM(a)\n#define N(x, y)";
		for (long i = 0; i < n; i++) s += (i % 3 == 0 ? " x" : i % 3 == 1 ? " (y)" : " +");
		s += "\nN(1, 2)\n";
	} else if (fam == "callargs") {
		// a call with n arguments nested in the argument list of another call: n + 3 argument values are open at once
		s = "int f(int, ...);\nint g(int a, int b) {\n\treturn f(a, f(0";
		for (long i = 0; i < n; i++) s += ", " + std::string(i % 3 == 0 ? "a" : i % 3 == 1 ? "b + " + std::to_string(i) : std::to_string(i));
		s += "), b, f(a, b));\n}\n";
	} else if (fam == "callnest") {
		// calls nested n deep, each with an argument before and after the inner call
		s = "int f(int, ...);\nint g(int a) {\n\treturn ";
		for (long i = 0; i < n; i++) s += "f(a, ";
		s += "a";
		for (long i = 0; i < n; i++) s += ", " + std::to_string(i) + ")";
		s += ";\n}\n";
	} else if (fam == "strparts") {
		s = "const char s[] =";
		for (long i = 0; i < n; i++) s += " \"p" + std::to_string(i) + "\"";
		s += " \"\";\n";
	} else if (fam == "ctxdepth") {
		s = "#define F0(x) x\n";
		for (long i = 1; i <= n; i++) s += "#define F" + std::to_string(i) + "(x) F" + std::to_string(i - 1) + "(x) x\n";
		s += "F" + std::to_string(n) + "(z)\n";
	} else if (fam == "objmacros") {
		for (long i = 0; i < n; i++) s += "#define O" + std::to_string(i) + " " + (i ? "O" + std::to_string(i - 1) + " + " : "") + std::to_string(i) + "\n";
		s += "int v = O" + std::to_string(n > 0 ? n - 1 : 0) + ";\n";
		if (n == 0) s = "int v;\n";
	} else if (fam == "params") {
		s = "int f(";
		for (long i = 0; i < n; i++) s += std::string(i ? ", " : "") + (i % 4 == 3 ? "const char a" + std::to_string(i) + "[]" : i % 4 == 2 ? "double a" + std::to_string(i) : "int a" + std::to_string(i));
		if (n == 0) s += "void";
		s += ") { return " + std::string(n ? "a0" : "0") + "; }\nint g(void) { return f(";
		for (long i = 0; i < n; i++) s += std::string(i ? ", " : "") + (i % 4 == 3 ? "\"s\"" : i % 4 == 2 ? "1.5" : std::to_string(i));
		s += "); }\n";
	} else if (fam == "escapes") {
		s = "const char e[] = \"";
		static const char *esc[] = {"\\n", "\\t", "\\x41", "\\101", "\\\\", "\\\"", "\\0", "\\a", "\\?", "\\'"};
		for (long i = 0; i < n; i++) s += esc[i % 10];
		s += "\";\nint c = '\\n' + '\\x7f' + L'\\377' + u'a' + U'b' + u8'c';\n";
	} else if (fam == "errident") {
		// a diagnostic that has to describe a very long token
		s = "int x = 1 ";
		s.append((size_t)n, 'q');
		s += ";\n";
	} else if (fam == "errstring") {
		s = "int f(void) { return 1 \"";
		for (long i = 0; i < n; i++) s += (char)('a' + i % 26);
		s += "\"; }\n";
	} else if (fam == "errnumber") {
		s = "int y = 2 ";
		for (long i = 0; i < n; i++) s += (char)('0' + i % 10);
		s += ";\n";
	} else if (fam == "errundeclared") {
		s = "int f(void) { return ";
		s.append((size_t)n, 'u');
		s += "; }\n";
	} else if (fam == "errmacroargs") {
		s = "#define G(a, b) a b\nint z = G(";
		for (long i = 0; i < n; i++) s += (i ? ", " : "") + std::to_string(i);
		s += ");\n";
	} else if (fam == "stringize") {
		s = "#define S(x) #x\nconst char *p = S(";
		s.append((size_t)n, 'k');
		s += ");\nconst char *q = S(\"";
		s.append((size_t)n, 'm');
		s += "\" + 1 );\n";
	} else if (fam == "eofpragma") {
		s = "int a;\n#pragma ";
		s.append((size_t)n, 'p');
	} else if (fam == "eofdirective") {
		static const char *d[] = {"#define X", "#define F(a", "#undef X", "#include", "#if 1", "#ifdef X", "#line 3", "#error x", "#", "#pragma once", "#define F(a) a\nF(1", "#define F(a) #a\nF(", "/* open comment", "// line comment", "\"open string", "'c", "#elif", "#else", "#endif"};
		s = std::string("int a;\n") + d[n % 19];
	} else {
		s = "int unknown_family;\n";
	}
	return s;
}

}  // namespace sb

// ------------------------------------------------------------ workload
struct CorpusEntry { std::string rel; std::string data; int target; bool pponly; std::string source; std::vector<VFile> more; };
static std::vector<CorpusEntry> g_corpus;   // /repo/test/*.c followed by the feature snippets: the exhaustive spaces run over these
static std::vector<CorpusEntry> g_own;      // cproc's own sources, preprocessed: large, sampled only
static size_t g_ntest = 0;

static void load_dir(const std::string &dir, const std::string &prefix, const std::string &relprefix, const char *suffix, std::vector<CorpusEntry> &out) {
	DIR *d = opendir(dir.c_str());
	if (!d) return;
	std::vector<std::string> names;
	size_t sl = strlen(suffix);
	while (struct dirent *e = readdir(d)) {
		std::string n = e->d_name;
		if (n.size() > sl && n.compare(n.size() - sl, sl, suffix) == 0) names.push_back(n);
	}
	closedir(d);
	std::sort(names.begin(), names.end());
	for (auto &n : names) {
		CorpusEntry c;
		c.rel = relprefix + n;
		c.source = prefix + n;
		if (!read_file(dir + "/" + n, c.data)) continue;
		c.target = 1 + (int)(hash_str(n) % 3);
		c.pponly = n.compare(0, 3, "pp-") == 0 && (hash_str(n) & 8);
		out.push_back(c);
	}
}

static void load_corpus() {
	std::string dir = g_repo + "/test";
	DIR *d = opendir(dir.c_str());
	if (!d) { fprintf(stderr, "cannot open %s\n", dir.c_str()); exit(2); }
	std::vector<std::string> names;
	while (struct dirent *e = readdir(d)) {
		std::string n = e->d_name;
		if (n.size() > 2 && n.compare(n.size() - 2, 2, ".c") == 0) names.push_back(n);
	}
	closedir(d);
	std::sort(names.begin(), names.end());
	for (auto &n : names) {
		CorpusEntry c;
		c.rel = "test/" + n;
		if (!read_file(dir + "/" + n, c.data)) continue;
		std::string base = n.substr(0, n.size() - 2);
		c.target = 1;
		size_t plus = base.find('+');
		if (plus != std::string::npos) {
			std::string a = base.substr(plus + 1);
			for (int t = 1; t <= 3; t++) if (a == TARGETS[t]) c.target = t;
		}
		std::string tmp;
		c.pponly = !read_file(dir + "/" + base + ".qbe", tmp) && read_file(dir + "/" + base + ".pp", tmp);
		c.source = "corpus:" + c.rel;
		g_corpus.push_back(c);
	}
	g_ntest = g_corpus.size();
	if (!g_featdir.empty()) {
		// features larger than 2 KiB are sampled like cproc's own sources; the single-fault spaces stay small
		std::vector<CorpusEntry> feats;
		load_dir(g_featdir, "feat:", "feat/", ".c", feats);
		// pair-NAME.1.c, pair-NAME.2.c, ...: one workload entry, several files on the command line
		std::vector<CorpusEntry> singles;
		for (auto &c : feats) {
			size_t b = c.rel.rfind('/');
			std::string base = c.rel.substr(b == std::string::npos ? 0 : b + 1);
			if (base.compare(0, 5, "pair-") == 0 && base.size() > 9 && base[base.size() - 4] == '.' && base[base.size() - 3] != '1') {
				std::string first = c.rel;
				first[first.size() - 3] = '1';   // ".2.c" -> ".1.c" (directory listing is sorted: the first part is already there)
				bool attached = false;
				for (auto &s1 : singles) if (s1.rel == first) { s1.more.push_back({c.rel, c.source, c.data}); attached = true; }
				if (attached) continue;
			}
			singles.push_back(c);
		}
		for (auto &c : singles) (c.data.size() > 2048 ? g_own : g_corpus).push_back(c);
	}
	if (!g_owndir.empty()) load_dir(g_owndir, "own:", "own/", ".i", g_own);
}

struct StressFam { const char *name; std::vector<long> knobs; bool pponly; };
static std::vector<long> opmatrix_knobs() {
	std::vector<long> v;
	for (long k = 0; k < (19 + 11 + 13 + 16) * 30L * 30L; k++) v.push_back(k);
	return v;
}
static const std::vector<StressFam> &stress_fams() {
	static std::vector<StressFam> f = {
		{"longident", {1, 63, 64, 255, 256, 257, 1000, 5000, 100000, 1000000}, false},
		{"longstring", {0, 255, 256, 257, 4095, 4096, 100000, 1000000}, false},
		{"manynames", {16, 17, 33, 65, 129, 1000}, false},
		{"localnames", {16, 17, 33, 65, 300}, false},
		{"switch", {8, 17, 64, 257, 1500}, false},
		{"switchseq", {8, 33, 1000, 5000}, false},
		{"designators", {1, 8, 31, 32, 33, 40}, false},
		{"bracenest", {1, 8, 31, 32, 33, 64}, false},
		{"parens", {10, 100, 1000, 3000, 6000, 10000}, false},
		{"blocks", {10, 100, 1000, 3000, 10000}, false},
		{"ptrdecl", {1, 64, 1000}, false},
		{"macroargs", {0, 1, 31, 32, 33, 200}, true},
		{"macrobody", {1, 63, 64, 65, 1000}, true},
		{"macronest", {1, 5, 10}, true},
		{"exprchain", {10, 255, 256, 2000}, false},
		{"funcs", {1, 33, 65, 300}, false},
		{"strings", {1, 33, 300}, false},
		{"longcomment", {255, 256, 4096, 100000, 1000000}, false},
		{"structmembers", {1, 32, 33, 65, 500}, false},
		{"switchfib", {3, 8, 13, 18, 22, 25}, false},
		{"anondesig", {0, 1, 2, 14, 15, 16, 17, 29, 30, 31, 32, 33, 34, 40, 64}, false},
		{"mixdesig", {0, 1, 8, 15, 16, 17, 18, 30, 31, 32, 33, 40}, false},
		{"macrorepl", {0, 1, 2, 3, 4, 5, 6, 7, 10, 11, 12, 13, 23, 24, 25, 26, 49, 50, 51, 52, 101, 102, 103, 300}, true},
		{"strparts", {1, 9, 10, 11, 20, 21, 22, 42, 43, 100}, false},
		{"callargs", {0, 1, 7, 8, 15, 16, 28, 29, 30, 31, 32, 33, 60, 64, 65, 130, 300}, false},
		{"callnest", {1, 2, 8, 15, 16, 17, 31, 32, 33, 34, 64, 65, 130}, false},
		{"ctxdepth", {1, 7, 8, 9, 15, 16, 17, 31, 32, 33, 64}, true},
		{"objmacros", {1, 31, 32, 33, 64, 65, 129, 300}, true},
		{"params", {0, 1, 6, 7, 8, 9, 32, 33, 100}, false},
		{"escapes", {1, 10, 255, 256, 4096}, false},
		{"errident", {1, 40, 55, 63, 64, 65, 255, 256, 5000, 1000000}, false},
		{"errstring", {1, 40, 55, 63, 64, 65, 255, 256, 5000}, false},
		{"errnumber", {1, 40, 55, 63, 64, 65, 255, 5000}, false},
		{"errundeclared", {1, 63, 64, 255, 256, 5000}, false},
		{"errmacroargs", {1, 2, 3, 33}, true},
		{"stringize", {1, 255, 256, 257, 511, 512, 513, 600, 4096, 100000, 1000000}, true},
		{"eofpragma", {0, 1, 10}, false},
		{"eofdirective", {0, 1, 2, 3, 4, 5, 6, 7, 8, 9, 10, 11, 12, 13, 14, 15, 16, 17, 18}, true},
		// keep last: the quick tier runs everything before it completely and one sixth of it per run
		{"opmatrix", opmatrix_knobs(), false},
	};
	return f;
}

static void set_corpus(Plan &p, size_t idx, Rng &r, bool vary_target) {
	const CorpusEntry &c = g_corpus[idx % g_corpus.size()];
	VFile f;
	f.name = c.rel;
	f.source = c.source;
	f.data = c.data;
	p.files.push_back(f);
	for (auto &m : c.more) p.files.push_back(m);
	p.target = c.target;
	p.pponly = c.pponly;
	if (vary_target && c.rel.find('+') == std::string::npos && r.coin(3, 10)) p.target = 1 + (int)r.below(3);
	if (vary_target && !c.pponly && r.coin(1, 12)) p.pponly = true;
}

static void set_own(Plan &p, Rng &r) {
	const CorpusEntry &c = g_own[r.below((uint32_t)g_own.size())];
	p.files.push_back({c.rel, c.source, c.data});
	p.target = 1 + (int)r.below(3);
	p.pponly = r.coin(1, 8);
}

static void set_stress(Plan &p, Rng &r, bool big) {
	const StressFam &f = stress_fams()[r.below((uint32_t)stress_fams().size())];
	size_t nk = f.knobs.size();
	// the largest knobs only now and then: they are slow
	long knob = f.knobs[r.below((uint32_t)(big ? nk : (nk > 2 ? nk - 1 : nk)))];
	VFile v;
	v.name = std::string("stress/") + f.name + ".c";
	v.data = stress_input(f.name, knob);
	// multi-megabyte members are run once per check in the "stress" space, not under sampled faults
	for (size_t k = nk; v.data.size() > (1u << 20) && k-- > 0;) { knob = f.knobs[k]; v.data = stress_input(f.name, knob); }
	v.source = std::string("stress:") + f.name + ":" + std::to_string(knob);
	p.files.push_back(v);
	p.target = 1 + (int)r.below(3);
	p.pponly = f.pponly || r.coin(1, 10);
}

static void perturb_schedule(Plan &p, Rng &r, bool invocation) {
	// swarm style: each axis is enabled in about half of the runs
	static const int gaps[] = {16, 64, 256, 4096};
	static const int chunks[] = {1, 2, 7, 4095, 4096, 4097, -1};
	if (r.coin(1, 2)) p.placement = 1;
	if (r.coin(1, 2)) p.gapmax = gaps[r.below(4)];
	if (r.coin(2, 3)) p.fill = 1 + (int)r.below(3);
	if (r.coin(1, 2)) p.free_policy = 1 + (int)r.below(3);
	if (r.coin(1, 2)) p.realloc_policy = 1;
	if (r.coin(1, 2)) p.zero_policy = 1;
	if (r.coin(1, 2)) p.chunk = chunks[r.below(7)];
	if (r.coin(1, 2)) p.outbuf = 1 + (int)r.below(6);
	p.alloc_seed = r.next();
	p.io_seed = r.next();
	p.trip_seed = r.next();
	if (invocation) {
		if (p.files.size() == 1 && r.coin(1, 3)) { p.via_stdin = true; p.stdin_pipe = r.coin(1, 2); }
		if (r.coin(1, 3)) p.dash_o = true;
		if (r.coin(1, 2)) p.stack_shift = 16 * (int)(1 + r.below(4096));
		if (r.coin(1, 4)) p.argv0 = 1 + (int)r.below(6);
		if (r.coin(1, 4)) p.alt_name = 1 + (int)r.below(4);
		if (r.coin(1, 4)) p.argstyle = 1 + (int)r.below(3);
	}
}

// ------------------------------------------------------------ reference runs
struct Ref { Res r; std::string sink; bool valid = false; mutable bool lines_checked = false, lines_ok = true; mutable std::string bad_line; };
static std::map<uint64_t, Ref> g_refs;
struct Probe { uint32_t nalloc, nread, nwrite; };
static std::map<uint64_t, Probe> g_probes;

static uint64_t workload_key(const Plan &p) {
	uint64_t h = mix((uint64_t)p.target, p.pponly ? 11 : 5);
	for (auto &f : p.files) { h = hash_str(f.name, h); h = hash_str(f.data, h); }
	return h;
}

static Plan null_plan(const Plan &p) {
	Plan n;
	n.prop = p.prop;
	n.files = p.files;
	n.target = p.target;
	n.pponly = p.pponly;
	return n;
}

static const Ref &reference(const Plan &p) {
	static const Ref none;
	if (under_memcheck()) return none;  // that worker's verdict does not use a reference run
	uint64_t k = workload_key(p);
	auto it = g_refs.find(k);
	if (it != g_refs.end()) return it->second;
	if (g_refs.size() > 3000) g_refs.clear();
	Outcome o = run_plan(null_plan(p), true, false);
	Ref r;
	r.r = o.r;
	r.sink = o.sink;
	r.valid = true;
	return g_refs[k] = r;
}

static Probe probe_counts(const Plan &p) {
	uint64_t k = mix(mix(workload_key(p), (uint64_t)(p.outbuf * 16 + (p.dash_o ? 8 : 0) + (p.via_stdin ? 4 : 0))), (uint64_t)(p.chunk + 77));
	auto it = g_probes.find(k);
	if (it != g_probes.end()) return it->second;
	if (g_probes.size() > 20000) g_probes.clear();
	Plan q = p;
	q.faults.clear();
	Outcome o = run_plan(q, false, false);
	Probe pr{o.r.nalloc, o.r.nread, o.r.nwrite};
	return g_probes[k] = pr;
}

// ------------------------------------------------------------ generators
static const int ERR_WRITE[] = {ENOSPC, EIO, EPIPE, EBADF, EDQUOT, EFBIG, EINTR, EAGAIN};
static const int PREFIXES[] = {0, 0, 1, 7, 63, 4095, 1 << 30};

static FaultB gen_write_fault(Rng &r, uint32_t nwrite) {
	FaultB f;
	f.seam = "write";
	f.index = (long)r.below(nwrite ? nwrite : 1);
	f.err = ERR_WRITE[r.below(8)];
	f.prefix = PREFIXES[r.below(7)];
	f.persistent = r.coin(1, 2);
	return f;
}

static Plan gen_c20(uint64_t seed, uint64_t index) {
	Rng r(seed);
	Plan p;
	p.prop = "C20";
	if (!g_own.empty() && r.coin(1, 25)) set_own(p, r);
	else if (r.coin(17, 20)) {
		set_corpus(p, (size_t)(index % g_corpus.size()), r, true);
		if (r.coin(1, 10)) {
			// multi-file invocation: two or three corpus files of the same mode on one command line
			int extra = 1 + (int)r.below(2);
			for (int i = 0; i < extra; i++) {
				const CorpusEntry &c = g_corpus[r.below((uint32_t)g_corpus.size())];
				if (c.pponly != p.pponly) continue;
				bool dup = false;
				for (auto &f : p.files) if (f.name == c.rel) dup = true;
				if (dup) continue;
				p.files.push_back({c.rel, c.source, c.data});
			}
		}
	} else set_stress(p, r, r.coin(1, 4));
	if (r.coin(1, 12)) p.target = 0;  // no -t: the default target is part of "the options", the reference uses none either
	perturb_schedule(p, r, true);
	if (r.coin(1, 8)) { p.free_policy = 3; p.fill = 0; p.realloc_policy = 1; p.gapmax = 0; p.placement = 0; }  // production allocator profile
	return p;
}

static Plan gen_c03(uint64_t seed, uint64_t index) {
	Rng r(seed);
	Plan p;
	p.prop = "C03";
	if (!g_own.empty() && r.coin(1, 30)) set_own(p, r);
	else set_corpus(p, (size_t)(index % g_corpus.size()), r, true);
	if (r.coin(1, 2)) perturb_schedule(p, r, true);
	else { p.outbuf = (int)r.below(7); p.dash_o = r.coin(1, 2); }
	// a quarter of the runs under the profile of a production allocator: freed blocks are handed out again with their
	// old contents, fresh memory is zero - stale but plausible values instead of patterns that crash at once
	bool production = r.coin(1, 4);
	if (production) { p.free_policy = 3; p.fill = 0; p.realloc_policy = 1; p.gapmax = 0; p.placement = 0; }
	Probe pr = probe_counts(p);
	if (!(production && r.coin(1, 2))) p.faults.push_back(gen_write_fault(r, pr.nwrite));
	if (r.coin(1, 6)) p.faults.push_back(gen_write_fault(r, pr.nwrite));
	if (r.coin(1, 8)) { FaultB a; a.seam = "alloc"; a.index = (long)r.below(pr.nalloc + 1); p.faults.push_back(a); }
	return p;
}

static Plan gen_c19(uint64_t seed, uint64_t index) {
	Rng r(seed);
	Plan p;
	p.prop = "C19";
	bool stress = r.coin(1, 8);
	if (stress) set_stress(p, r, r.coin(1, 3));
	else if (!g_own.empty() && r.coin(1, 30)) set_own(p, r);
	else {
		set_corpus(p, (size_t)(index % g_corpus.size()), r, true);
		if (r.coin(1, 10)) {
			const CorpusEntry &c = g_corpus[r.below((uint32_t)g_corpus.size())];
			if (c.pponly == p.pponly && c.rel != p.files[0].name) p.files.push_back({c.rel, c.source, c.data});
		}
	}
	if (r.coin(1, 2)) perturb_schedule(p, r, true);
	Probe pr = probe_counts(p);
	int kind = (int)r.below(stress ? 4 : 8);
	FaultB f;
	static const int ERR_READ[] = {EIO, EISDIR, EBADF, EINTR};
	static const int ERR_OPEN[] = {ENOENT, EACCES, EMFILE, ENFILE, ENOMEM};
	switch (kind) {
	case 0: f.seam = "alloc"; f.index = (long)r.below(pr.nalloc + 2); break;
	case 1: f.seam = "read"; f.index = (long)r.below(pr.nread + 1); f.err = ERR_READ[r.below(4)]; break;
	case 2: f = gen_write_fault(r, pr.nwrite); break;
	case 3:
		if (r.coin(1, 4)) { f.seam = "rename"; f.index = 0; f.err = r.coin(1, 2) ? EISDIR : EXDEV; p.dash_o = true; }
		else if (p.via_stdin || r.coin(1, 2)) { f.seam = "freopen"; f.index = 0; f.err = r.coin(1, 2) ? EACCES : ENOSPC; p.dash_o = true; }
		else { f.seam = "fopen"; f.index = (long)r.below((uint32_t)p.files.size()); f.err = ERR_OPEN[r.below(5)]; }
		break;
	case 4: case 5: f.seam = "eof"; f.file = (int)r.below((uint32_t)p.files.size()); f.index = (long)r.below((uint32_t)p.files[f.file].data.size() + 1); break;
	default: f.seam = "flip"; f.file = (int)r.below((uint32_t)p.files.size()); f.index = (long)r.below((uint32_t)std::max<size_t>(1, p.files[f.file].data.size())); f.bit = (int)r.below(8); break;
	}
	p.faults.push_back(f);
	if (r.coin(1, 10)) { FaultB a; a.seam = "alloc"; a.index = (long)r.below(pr.nalloc + 1); p.faults.push_back(a); }
	return p;
}

// ---- exhaustive single-fault spaces over the corpus (thorough tier and framework construction)
struct Space {
	std::string name;
	std::vector<uint64_t> cum;  // cumulative sizes per corpus entry
	uint64_t total = 0;
};
static std::map<std::string, Space> g_spaces;
static uint64_t g_space_seed = 0;
static const int NBUFMODES = 4;
static const int BUFMODES[NBUFMODES] = {0, 1, 2, 4};

static uint64_t space_size_for(const std::string &name, size_t ci) {
	const CorpusEntry &c = g_corpus[ci];
	Rng dummy(0);
	Plan p;
	p.prop = "C19";
	set_corpus(p, ci, dummy, false);
	if (name == "trunc") return c.data.size();
	if (name == "flip") return c.data.size() * 8;
	if (name == "flip2") return c.data.size() * 2;  // quick tier: two of the eight bits of every byte, chosen by the seed
	if (name == "alloc") return std::min<uint64_t>(probe_counts(p).nalloc + 1, 4000);  // bounded: an input that allocates without end must not square the sweep
	if (name == "read") return probe_counts(p).nread;
	if (name == "write") {
		uint64_t n = 0;
		for (int m = 0; m < NBUFMODES; m++) { p.outbuf = BUFMODES[m]; n += (uint64_t)probe_counts(p).nwrite * 6; }
		return n;
	}
	return 0;
}

static const Space &space(const std::string &name) {
	auto it = g_spaces.find(name);
	if (it != g_spaces.end()) return it->second;
	Space s;
	s.name = name;
	if (name == "memcheck" || name == "xbuild") {
		// every corpus/feature file in its own mode and with -E, every preprocessed source of cproc itself, and the smallest knob of every stress family
		s.total = g_corpus.size() * 2 + g_own.size() + stress_fams().size();
		return g_spaces[name] = s;
	}
	if (name == "stress") {
		// every (family, knob) pair of the stress family once, fault-free: the largest knobs are too rare under sampling
		for (auto &f : stress_fams()) { s.total += f.knobs.size(); s.cum.push_back(s.total); }
		return g_spaces[name] = s;
	}
	for (size_t i = 0; i < g_corpus.size(); i++) { s.total += space_size_for(name, i); s.cum.push_back(s.total); }
	return g_spaces[name] = s;
}

static Plan space_plan(const std::string &name, uint64_t index, const std::string &prop) {
	const Space &s = space(name);
	index %= s.total ? s.total : 1;
	if (name == "xbuild") {
		// the same workload list under the null plan: what is compared is the build, not the schedule
		Plan q = null_plan(space_plan("memcheck", index, prop));
		q.label = "space:xbuild";
		return q;
	}
	if (name == "memcheck") {
		Plan p;
		Rng r(run_seed(g_space_seed, "memcheck", index));
		p.prop = prop;
		if (index < g_corpus.size() * 2) {
			set_corpus(p, (size_t)(index / 2), r, false);
			if (index & 1) { if (p.pponly) p.target = 1 + (p.target % 3); else p.pponly = true; }
		} else if (index < g_corpus.size() * 2 + g_own.size()) {
			const CorpusEntry &c = g_own[index - g_corpus.size() * 2];
			p.files.push_back({c.rel, c.source, c.data});
			p.target = 1 + (int)(index % 3);
		} else {
			const StressFam &f = stress_fams()[index - g_corpus.size() * 2 - g_own.size()];
			long knob = f.knobs[0];
			p.files.push_back({std::string("stress/") + f.name + ".c", std::string("stress:") + f.name + ":" + std::to_string(knob), stress_input(f.name, knob)});
			p.target = 1 + (int)(index % 3);
			p.pponly = f.pponly;
		}
		// definedness does not depend on the fill pattern; placement, reuse and chunking change which bytes are fresh
		perturb_schedule(p, r, (index / 2) % 3 == 0);
		p.label = "space:memcheck";
		return p;
	}
	size_t ci = (size_t)(std::upper_bound(s.cum.begin(), s.cum.end(), index) - s.cum.begin());
	uint64_t off = index - (ci ? s.cum[ci - 1] : 0);
	if (name == "stress") {
		const StressFam &f = stress_fams()[ci];
		Plan p;
		p.prop = prop;
		long knob = f.knobs[off];
		p.files.push_back({std::string("stress/") + f.name + ".c", std::string("stress:") + f.name + ":" + std::to_string(knob), stress_input(f.name, knob)});
		p.target = 1 + (int)(index % 3);
		p.pponly = f.pponly;
		p.label = "space:stress";
		return p;
	}
	Rng dummy(0);
	Plan p;
	p.prop = prop;
	set_corpus(p, ci, dummy, false);
	FaultB f;
	if (name == "trunc") { f.seam = "eof"; f.index = (long)off; }
	else if (name == "flip") { f.seam = "flip"; f.index = (long)(off / 8); f.bit = (int)(off % 8); }
	else if (name == "flip2") { f.seam = "flip"; f.index = (long)(off / 2); f.bit = (int)((g_space_seed + (off / 2) * 3 + (off % 2) * 4) % 8); }
	else if (name == "alloc") { f.seam = "alloc"; f.index = (long)off; }
	else if (name == "read") { f.seam = "read"; f.index = (long)off; f.err = EIO; }
	else if (name == "write") {
		for (int m = 0; m < NBUFMODES; m++) {
			p.outbuf = BUFMODES[m];
			uint64_t n = (uint64_t)probe_counts(p).nwrite * 6;
			if (off < n) break;
			off -= n;
		}
		static const int pf[3] = {0, 1, 1 << 30};
		f.seam = "write";
		f.index = (long)(off / 6);
		f.persistent = (off % 6) >= 3;
		f.prefix = pf[off % 3];
		f.err = ERR_WRITE[(off / 6 + off % 6) % 8];  // every errno class meets every position over the sweep
	}
	p.faults.push_back(f);
	p.label = "space:" + name;
	return p;
}

// ------------------------------------------------------------ oracles
struct Verdict { std::string cls, detail, sig; };

static bool io_fault(uint32_t fired) { return fired & (F_READ | F_WRITE | F_FOPEN | F_FREOPEN | F_RENAME); }

static std::string describe_diff(const std::string &a, const std::string &b) {
	size_t n = std::min(a.size(), b.size()), i = 0;
	while (i < n && a[i] == b[i]) i++;
	char buf[160];
	snprintf(buf, sizeof buf, "reference %zu bytes, this run %zu bytes, first difference at byte %zu", a.size(), b.size(), i);
	return buf;
}

// Lexical shape of a QBE IL module as cproc emits it: the cheapest part of "status 0 is never
// returned with ... interleaved-with-diagnostic ... output".  Returns the first offending line.
static bool il_lines_only(const std::string &out, std::string &bad) {
	size_t p = 0;
	while (p < out.size()) {
		size_t n = out.find('\n', p);
		std::string line = out.substr(p, n == std::string::npos ? std::string::npos : n - p);
		p = n == std::string::npos ? out.size() : n + 1;
		if (line.empty() || line[0] == '\t' || line[0] == '@' || line == "}") continue;
		static const char *starts[] = {"export", "thread", "function", "data ", "type ", "section ", "common "};
		bool ok = false;
		for (const char *st : starts) if (line.compare(0, strlen(st), st) == 0) ok = true;
		if (n == std::string::npos) { bad = "last line is not terminated: " + line.substr(0, 80); return false; }
		if (!ok) { bad = line.substr(0, 100); return false; }
	}
	return true;
}

static Verdict evaluate(const Plan &p, const Outcome &o, const Ref &ref, const std::string *sink) {
	Verdict v;
	const Res &r = o.r;
	if (r.kind == K_HARNESS) { v.cls = "harness"; v.detail = r.msg; v.sig = "harness"; return v; }
	if (under_memcheck()) {
		// a worker started under valgrind decides one thing only: C20's "no output byte or branch depends on
		// uninitialised memory".  Everything else (status, output, termination) is decided by the native workers,
		// so nothing that valgrind's own environment changes (stack size, speed) can raise an alarm here.
		if (p.prop == "C20" && r.vg_errors) {
			v.cls = "C20/uninitialised-memory";
			v.sig = "memcheck " + o.vg_sig;
			v.detail = std::to_string(r.vg_errors) + " memcheck error(s); first: " + o.vg_text;
		}
		return v;
	}
	bool abnormal = r.kind != K_EXIT || (r.status != 0 && r.status != 1 && r.status != 2);
	bool same_out = r.kind == K_EXIT && ref.r.kind == K_EXIT && r.sink_len == ref.r.sink_len && r.sink_hash == ref.r.sink_hash && r.stray_len == 0;
	if (p.prop == "C19") {
		if (abnormal) {
			v.cls = "C19/abnormal-termination";
			v.sig = o.signature;
			v.detail = o.signature + ": " + r.msg;
			return v;
		}
		if (io_fault(r.fired) && r.status == 0) {
			const char *seam = r.fired & F_READ ? "read" : r.fired & F_WRITE ? "write" : r.fired & F_FOPEN ? "fopen" : r.fired & F_RENAME ? "rename" : "freopen";
			v.cls = "C19/io-failure-exit0";
			v.sig = std::string("io-failure-exit0 ") + seam;
			v.detail = std::string("an injected ") + seam + " failure fired, cproc-qbe still exited 0";
			return v;
		}
		if ((r.fired & F_ALLOC) && !(r.fired & ~(uint32_t)F_ALLOC) && r.status == 0 && ref.r.kind == K_EXIT && !same_out) {
			v.cls = "C19/alloc-failure-wrong-output";
			v.sig = "alloc-failure-wrong-output " + fn_name(r.fault_fn[0]);
			v.detail = "allocation failure inside " + fn_name(r.fault_fn[0]) + " was survived with status 0 but different output";
			return v;
		}
		return v;
	}
	if (p.prop == "C20") {
		if (ref.r.kind != K_EXIT && r.kind != K_EXIT) return v;  // abnormal under every schedule: C19's business
		if (ref.r.kind != K_EXIT) {
			v.cls = "C20/status-differs";
			v.sig = "status reference-abnormal";
			v.detail = std::string("reference run ended abnormally (") + kind_name[ref.r.kind] + " " + ref.r.msg + "); perturbed run: " + o.signature;
			return v;
		}
		if (r.fired & F_TRIPWIRE) {
			// an environment query is not a violation by itself; dependence on it shows as a difference below
		}
		if (r.kind != K_EXIT || r.status != ref.r.status) {
			v.cls = "C20/status-differs";
			v.sig = "status " + o.signature;
			v.detail = "reference run: exit " + std::to_string(ref.r.status) + "; perturbed run: " + o.signature + " " + r.msg;
			return v;
		}
		if (!same_out) {
			v.cls = "C20/output-differs";
			v.sig = "output";
			v.detail = sink ? describe_diff(ref.sink, *sink) : "output bytes differ from the reference run";
			if (r.stray_len) v.detail += "; " + std::to_string(r.stray_len) + " byte(s) went to the wrong stream";
			return v;
		}
		return v;
	}
	if (p.prop == "C03") {
		if (ref.r.kind != K_EXIT || ref.r.status != 0) return v;
		if (r.kind != K_EXIT) return v;  // abnormal termination is C19's clause
		if ((r.fired & F_WRITE) && r.dropped > 0 && r.status == 0) {
			v.cls = "C03/status0-after-write-failure";
			v.sig = "status0-after-write-failure";
			v.detail = "the output descriptor refused or dropped " + std::to_string(r.dropped) + " byte(s), cproc-qbe exited 0";
			return v;
		}
		if (!p.pponly) {
			// the fault-free reference run of this workload exited 0: its output must be IL and nothing else
			std::string bad;
			if (!ref.lines_checked) { ref.lines_ok = il_lines_only(ref.sink, ref.bad_line); ref.lines_checked = true; }
			bad = ref.bad_line;
			if (!ref.lines_ok) {
				v.cls = "C03/status0-with-foreign-text";
				v.sig = "status0-with-foreign-text";
				v.detail = "exit 0, but the output contains a line that is not IL (diagnostic text in the module?): " + bad;
				return v;
			}
		}
		if (r.status == 0 && !same_out) {
			v.cls = "C03/status0-with-damaged-output";
			v.sig = "status0-with-damaged-output";
			v.detail = sink ? describe_diff(ref.sink, *sink) : "exit 0 but the sink does not hold the reference module";
			return v;
		}
		return v;
	}
	return v;
}

// ------------------------------------------------------------ run + shrink
static std::set<std::string> g_known_sigs;
static int g_shrink_runs = 0;

static Verdict run_eval(const Plan &p, Outcome *out = nullptr, bool want_sink = false) {
	const Ref &ref = reference(p);
	Outcome o = run_plan(p, want_sink, false);
	Verdict v = evaluate(p, o, ref, want_sink ? &o.sink : nullptr);
	if (out) *out = o;
	return v;
}

static uint64_t g_shrink_steps = 0;
static const uint64_t SHRINK_STEP_BUDGET = 400000000ULL;  // simulated steps, not wall-clock: minimisation stays a function of the plan

static bool still(const Plan &p, const Verdict &want) {
	g_shrink_runs++;
	Outcome o;
	Verdict v = run_eval(p, &o);
	g_shrink_steps += o.r.steps + 20000;
	return v.cls == want.cls && v.sig == want.sig;
}

static std::vector<std::string> split_lines(const std::string &s) {
	std::vector<std::string> v;
	size_t p = 0;
	while (p < s.size()) {
		size_t n = s.find('\n', p);
		if (n == std::string::npos) { v.push_back(s.substr(p)); break; }
		v.push_back(s.substr(p, n - p + 1));
		p = n + 1;
	}
	return v;
}

static Plan minimise(Plan p, const Verdict &want) {
	const int BUDGET = under_memcheck() ? 150 : 1500;  // a run under valgrind costs about thirty native ones
	auto attempt = [&](const Plan &t) {
		if (g_shrink_runs >= BUDGET || g_shrink_steps >= SHRINK_STEP_BUDGET) return false;
		if (still(t, want)) { p = t; return true; }
		return false;
	};
	// drop faults one at a time
	for (size_t i = 0; i < p.faults.size();) { Plan t = p; t.faults.erase(t.faults.begin() + i); if (!attempt(t)) i++; }
	// reset each policy to null
	{ Plan t = p; t.via_stdin = false; t.stdin_pipe = false; attempt(t); }
	{ Plan t = p; t.stdin_pipe = false; attempt(t); }
	{ Plan t = p; t.dash_o = false; bool needs = false; for (auto &f : t.faults) if (f.seam == "freopen") needs = true; if (!needs) attempt(t); }
	{ Plan t = p; t.stack_shift = 0; attempt(t); }
	{ Plan t = p; t.argv0 = 0; attempt(t); }
	{ Plan t = p; t.alt_name = 0; attempt(t); }
	{ Plan t = p; t.argstyle = 0; attempt(t); }
	{ Plan t = p; t.placement = 0; attempt(t); }
	{ Plan t = p; t.gapmax = 0; attempt(t); }
	{ Plan t = p; t.free_policy = 0; attempt(t); }
	{ Plan t = p; t.realloc_policy = 0; attempt(t); }
	{ Plan t = p; t.zero_policy = 0; attempt(t); }
	{ Plan t = p; t.fill = 0; attempt(t); }
	{ Plan t = p; t.chunk = 0; attempt(t); }
	{ Plan t = p; t.outbuf = 0; bool wf = false; for (auto &f : t.faults) if (f.seam == "write") wf = true; if (!wf) attempt(t); }
	if (p.files.size() > 1)
		for (size_t i = 0; i < p.files.size() && p.files.size() > 1;) { Plan t = p; t.files.erase(t.files.begin() + i); for (auto &f : t.faults) if (f.file > (int)i) f.file--; else if (f.file == (int)i && (f.seam == "eof" || f.seam == "flip")) f.file = -1; if (!attempt(t)) i++; }
	// materialise stream corruption into the input text, then shrink the text line by line
	bool textual = want.cls == "C19/abnormal-termination" || p.prop == "C20";
	if (textual && p.prop == "C19") {
		Plan t = p;
		bool changed = false;
		for (size_t i = 0; i < t.faults.size();) {
			FaultB &f = t.faults[i];
			if ((f.seam == "eof" || f.seam == "flip") && f.file >= 0 && f.file < (int)t.files.size()) {
				VFile &vf = t.files[f.file];
				if (f.seam == "eof") vf.data = vf.data.substr(0, (size_t)f.index);
				else if ((size_t)f.index < vf.data.size()) vf.data[f.index] ^= (char)(1 << (f.bit & 7));
				vf.source = "inline";
				t.faults.erase(t.faults.begin() + i);
				changed = true;
			} else i++;
		}
		if (changed) attempt(t);
	}
	bool only_index_faults = true;
	for (auto &f : p.faults) if (f.seam == "eof" || f.seam == "flip") only_index_faults = false;
	if (textual && only_index_faults && p.faults.empty()) {
		for (size_t fi = 0; fi < p.files.size(); fi++) {
			std::vector<std::string> lines = split_lines(p.files[fi].data);
			size_t chunk = lines.size() / 2;
			while (chunk >= 1 && g_shrink_runs < BUDGET && g_shrink_steps < SHRINK_STEP_BUDGET) {
				bool any = false;
				for (size_t at = 0; at < lines.size() && g_shrink_runs < BUDGET && g_shrink_steps < SHRINK_STEP_BUDGET;) {
					std::vector<std::string> l2(lines.begin(), lines.begin() + at);
					size_t end = std::min(lines.size(), at + chunk);
					l2.insert(l2.end(), lines.begin() + end, lines.end());
					Plan t = p;
					t.files[fi].data.clear();
					for (auto &l : l2) t.files[fi].data += l;
					t.files[fi].source = "inline";
					if (attempt(t)) { lines = l2; any = true; } else at += chunk;
				}
				if (!any) chunk /= 2;
				else if (chunk > lines.size()) chunk = lines.size();
			}
		}
	}
	return p;
}

struct StatsB {
	uint64_t runs = 0, steps = 0, ref_runs = 0, nalloc = 0, nread = 0, nwrite = 0, realloc_moved = 0, lifo_reused = 0, maxdepth = 0, dropped_bytes = 0;
	std::map<std::string, uint64_t> configured, firedk, outcomes, verdicts, known, sites, axes, workloads, unreproducible;
	std::set<uint64_t> distinct;
	std::set<void *> fns;
	std::vector<Json> samples;
};

static const char *fired_names[] = {"alloc", "read", "write", "fopen", "freopen", "eof", "flip", "tripwire", "rename"};

static void usage_exit() {
	fprintf(stderr, "usage: simB run --prop C03|C19|C20 [--space NAME] --seed N --start A --stride K --count N --repo DIR [--out F] [--hashes F] [--replay-dir D] [--known-sigs F]\n"
	                "       simB replay FILE --repo DIR\n       simB space --name NAME --repo DIR\n       simB ref --file test/x.c --repo DIR\n");
	exit(2);
}

int main(int argc, char **argv) {
	// identical addresses in every process: disable ASLR once and re-execute
	if (!getenv("SIMB_NOASLR_DONE")) {
		setenv("SIMB_NOASLR_DONE", "1", 1);
		if (sanitized_build()) {
			// instrumented frames are several times larger than the real ones: give the sanitized build a stack
			// in proportion, so that nesting the real binary handles (10^4, C19's bound) is not reported as overflow
			struct rlimit rl;
			if (getrlimit(RLIMIT_STACK, &rl) == 0) {
				rlim_t want = (rlim_t)1 << 30;
				if (rl.rlim_max != RLIM_INFINITY && want > rl.rlim_max) want = rl.rlim_max;
				rl.rlim_cur = want;
				setrlimit(RLIMIT_STACK, &rl);
			}
		}
		int pers = personality(0xffffffff);
		if (pers != -1 && !(pers & ADDR_NO_RANDOMIZE) && personality(pers | ADDR_NO_RANDOMIZE) != -1) execv("/proc/self/exe", argv);
	}
	if (argc < 2) usage_exit();
	std::string cmd = argv[1];
	std::map<std::string, std::string> opt;
	std::vector<std::string> pos;
	for (int i = 2; i < argc; i++) {
		std::string a = argv[i];
		if (a.compare(0, 2, "--") == 0) {
			if (a == "--log" || a == "--no-shrink" || a == "--dump") opt[a.substr(2)] = "1";
			else if (i + 1 < argc) opt[a.substr(2)] = argv[++i];
		} else pos.push_back(a);
	}
	if (opt.count("repo")) g_repo = opt["repo"];
	if (opt.count("features")) g_featdir = opt["features"];
	if (opt.count("own")) g_owndir = opt["own"];
	static char selfpath[4096];
	{
		ssize_t sl = readlink("/proc/self/exe", selfpath, sizeof selfpath - 1);
		if (sl <= 0) { perror("readlink /proc/self/exe"); return 2; }
		selfpath[sl] = 0;
	}
	symbols_init(selfpath);
	load_corpus();
	if (g_corpus.empty()) { fprintf(stderr, "empty corpus under %s/test\n", g_repo.c_str()); return 2; }
	if (opt.count("known-sigs")) {
		std::string t;
		if (read_file(opt["known-sigs"], t)) for (auto &l : split_lines(t)) { std::string s = l; while (!s.empty() && (s.back() == '\n' || s.back() == '\r')) s.pop_back(); if (!s.empty()) g_known_sigs.insert(s); }
	}

	if (cmd == "space") {
		const Space &s = space(opt["name"]);
		uint64_t handsized = 0;
		if (opt["name"] == "stress") for (auto &f : stress_fams()) if (std::string(f.name) != "opmatrix") handsized += f.knobs.size();
		printf("{\"handsized\":%llu,\"name\":\"%s\",\"total\":%llu,\"corpus\":%zu,\"test_files\":%zu,\"own\":%zu}\n", (unsigned long long)handsized, s.name.c_str(), (unsigned long long)s.total, g_corpus.size(), g_ntest, g_own.size());
		return 0;
	}
	if (cmd == "ref") {
		Plan p;
		Rng dummy(0);
		for (size_t i = 0; i < g_corpus.size(); i++) if (g_corpus[i].rel == opt["file"]) set_corpus(p, i, dummy, false);
		if (p.files.empty()) return 2;
		Outcome o = run_plan(p, true, false);
		fwrite(o.sink.data(), 1, o.sink.size(), stdout);
		fprintf(stderr, "%s steps=%llu allocs=%u reads=%u writes=%u maxdepth=%u msg=%s\n", o.signature.c_str(), (unsigned long long)o.r.steps, o.r.nalloc, o.r.nread, o.r.nwrite, o.r.maxdepth, o.r.msg);
		return 0;
	}
	if (cmd == "plan") {
		// the plan of one index of a space, as JSON (used by the check to write replay files it decides itself)
		g_space_seed = strtoull(opt["seed"].c_str(), nullptr, 0);
		Plan p = space_plan(opt["space"], strtoull(opt["index"].c_str(), nullptr, 0), opt["prop"]);
		printf("%s\n", p.to_json(false).str().c_str());
		return 0;
	}
	if (cmd == "outcome") {
		// run the plan of a replay file once, print what came out (no verdict)
		if (pos.empty()) usage_exit();
		std::string text;
		Json j;
		if (!read_file(pos[0], text) || !Json::parse(text, j)) { fprintf(stderr, "cannot read %s\n", pos[0].c_str()); return 2; }
		Plan p;
		const Json *pj = j.get("plan");
		if (!Plan::from_json(pj ? *pj : j, p, g_repo)) { fprintf(stderr, "bad plan\n"); return 2; }
		Outcome o = run_plan(p, true, false);
		printf("%s %d %s %llu\n", kind_name[o.r.kind], o.r.status, hex64(o.r.sink_hash).c_str(), (unsigned long long)o.r.sink_len);
		if (opt.count("dump")) fwrite(o.sink.data(), 1, o.sink.size(), stdout);
		return 0;
	}
	if (cmd == "replay") {
		if (pos.empty()) usage_exit();
		std::string text;
		Json j;
		if (!read_file(pos[0], text) || !Json::parse(text, j)) { fprintf(stderr, "cannot read %s\n", pos[0].c_str()); return 2; }
		Plan p;
		const Json *pj = j.get("plan");
		if (!Plan::from_json(pj ? *pj : j, p, g_repo)) { fprintf(stderr, "bad plan\n"); return 2; }
		Outcome o;
		Verdict v = run_eval(p, &o, true);
		printf("replay: class=\"%s\" signature=\"%s\" detail=\"%s\"\n  outcome=%s steps=%llu allocs=%u reads=%u writes=%u fired=0x%x event_hash=%s\n  stderr: %s\n", v.cls.c_str(), v.sig.c_str(), v.detail.c_str(),
		       o.signature.c_str(), (unsigned long long)o.r.steps, o.r.nalloc, o.r.nread, o.r.nwrite, o.r.fired, hex64(o.r.ev_hash).c_str(), o.r.msg);
		if (!o.report.empty() && opt.count("log")) printf("%s\n", o.report.c_str());
		if (opt.count("dump")) fwrite(o.sink.data(), 1, o.sink.size(), stdout);
		if (j.gets("build") == "memcheck" && !under_memcheck()) { printf("this replay file describes a memcheck finding: replay it with bin/check C20 --replay (which starts the worker under valgrind)\n"); return 2; }
		if (v.cls.empty()) return 0;
		std::string want_cls = j.gets("class"), want_sig = j.gets("signature"), want_hash = j.gets("event_hash");
		if (!want_cls.empty() && (want_cls != v.cls || want_sig != v.sig || (!sanitized_build() && !want_hash.empty() && want_hash != hex64(o.r.ev_hash)))) {
			printf("replay MISMATCH: file says class=\"%s\" signature=\"%s\" event_hash=%s\n", want_cls.c_str(), want_sig.c_str(), want_hash.c_str());
			return 2;
		}
		if (g_known_sigs.count(v.sig)) { printf("known: %s\n", v.sig.c_str()); return 0; }
		printf("VIOLATION property=%s replay=%s\n", p.prop.c_str(), pos[0].c_str());
		return 1;
	}
	if (cmd != "run") usage_exit();

	std::string prop = opt["prop"];
	uint64_t seed = strtoull(opt["seed"].c_str(), nullptr, 0);
	g_space_seed = seed;
	uint64_t start = strtoull(opt["start"].c_str(), nullptr, 0), stride = opt.count("stride") ? strtoull(opt["stride"].c_str(), nullptr, 0) : 1;
	uint64_t count = strtoull(opt["count"].c_str(), nullptr, 0);
	std::string spc = opt.count("space") ? opt["space"] : "";
	std::string replay_dir = opt.count("replay-dir") ? opt["replay-dir"] : "/verif/replays";
	uint64_t hashes_below = opt.count("hashes-below") ? strtoull(opt["hashes-below"].c_str(), nullptr, 0) : ~0ULL;
	FILE *hf = opt.count("hashes") ? fopen(opt["hashes"].c_str(), "w") : nullptr;
	FILE *sigf = opt.count("sigs-out") ? fopen(opt["sigs-out"].c_str(), "w") : nullptr;
	FILE *sinkf = opt.count("sinks") ? fopen(opt["sinks"].c_str(), "w") : nullptr;
	int max_viol = opt.count("max-violations") ? atoi(opt["max-violations"].c_str()) : 5;
	StatsB st;
	int nviol = 0, gate_fail = 0;
	std::set<std::string> reported, unrepro;
	if (!spc.empty()) { uint64_t tot = space(spc).total; if (start + (count - 1) * stride >= tot && count) count = start < tot ? (tot - start + stride - 1) / stride : 0; }

	for (uint64_t n = 0; n < count; n++) {
		uint64_t index = start + n * stride;
		uint64_t rs = run_seed(seed, prop.c_str(), index);
		Plan p = !spc.empty() ? space_plan(spc, index, prop) : prop == "C20" ? gen_c20(rs, index) : prop == "C03" ? gen_c03(rs, index) : gen_c19(rs, index);
		p.origin_seed = seed;
		p.origin_index = index;
		const Ref &ref = reference(p);
		bool cov = (n % 64) == 0;
		Outcome o = run_plan(p, false, cov);
		Verdict v = evaluate(p, o, ref, nullptr);
		st.runs++;
		st.steps += o.r.steps;
		st.nalloc += o.r.nalloc; st.nread += o.r.nread; st.nwrite += o.r.nwrite;
		st.realloc_moved += o.r.realloc_moved; st.lifo_reused += o.r.lifo_reused;
		st.dropped_bytes += o.r.dropped;
		if (o.r.maxdepth > st.maxdepth) st.maxdepth = o.r.maxdepth;
		st.distinct.insert(o.r.ev_hash);
		st.outcomes[o.r.kind == K_EXIT ? "exit:" + std::to_string(o.r.status) : std::string(kind_name[o.r.kind])]++;
		for (auto &f : p.faults) st.configured[f.seam]++;
		for (int b = 0; b < 9; b++) if (o.r.fired & (1u << b)) st.firedk[fired_names[b]]++;
		if (o.r.fired && o.r.fault_fn[0]) {
			for (int b = 0; b < 5; b++) if (o.r.fired & (1u << b)) st.sites[std::string(fired_names[b]) + "@" + fn_name(o.r.fault_fn[0])]++;
		}
		if (p.placement) st.axes["placement=descending"]++;
		if (p.gapmax) st.axes["gaps"]++;
		if (p.fill) st.axes["fill=" + std::to_string(p.fill)]++;
		st.axes[p.free_policy == 1 ? "free=lifo-reuse" : p.free_policy == 2 ? "free=keep-contents" : p.free_policy == 3 ? "free=lifo-reuse-stale-contents" : "free=poison-noreuse"]++;
		if (p.realloc_policy) st.axes["realloc=in-place"]++; else st.axes["realloc=always-move"]++;
		if (p.zero_policy) st.axes["malloc(0)=NULL"]++;
		if (p.chunk) st.axes["chunk=" + std::to_string(p.chunk)]++;
		if (p.outbuf) st.axes["outbuf=" + std::to_string(p.outbuf)]++;
		if (p.via_stdin) st.axes[p.stdin_pipe ? "stdin(pipe)" : "stdin(file)"]++;
		if (p.dash_o) st.axes["-o"]++;
		if (p.stack_shift) st.axes["stack-shift"]++;
		if (p.argv0) st.axes["argv0"]++;
		if (p.alt_name) st.axes["input-path-name"]++;
		if (p.argstyle) st.axes["option-spelling"]++;
		if (p.target == 0) st.axes["no -t option"]++;
		if (p.files.size() > 1) st.axes["multi-file"]++;
		st.workloads[p.files[0].source.compare(0, 7, "stress:") == 0 ? "stress:" + p.files[0].source.substr(7, p.files[0].source.find(':', 7) - 7) : p.files[0].source.substr(0, p.files[0].source.find(':'))]++;
		for (void *f : o.fns) st.fns.insert(f);
		if (opt.count("trace-index") && strtoull(opt["trace-index"].c_str(), nullptr, 0) == index)
			fprintf(stderr, "TRACE index=%llu %s ev=%s sink=%s/%llu steps=%llu allocs=%u reads=%u writes=%u fired=%x depth=%u msg=%s plan=%s\n", (unsigned long long)index, o.signature.c_str(), hex64(o.r.ev_hash).c_str(), hex64(o.r.sink_hash).c_str(),
			        (unsigned long long)o.r.sink_len, (unsigned long long)o.r.steps, o.r.nalloc, o.r.nread, o.r.nwrite, o.r.fired, o.r.maxdepth, o.r.msg, p.to_json(false).str().c_str());
		if (sinkf) fprintf(sinkf, "%llu %s %d %s %llu\n", (unsigned long long)index, kind_name[o.r.kind], o.r.status, hex64(o.r.sink_hash).c_str(), (unsigned long long)o.r.sink_len);
		if (hf && index < hashes_below) fprintf(hf, "%llu %s\n", (unsigned long long)index, hex64(mix(o.r.ev_hash, mix(o.r.sink_hash, (uint64_t)o.r.kind * 256 + (uint64_t)o.r.status))).c_str());
		if (st.samples.size() < 3 && (n % 211) == 0) {
			Json s = Json::obj();
			s.set("plan", p.to_json(false)).set("outcome", o.signature).set("steps", (unsigned long long)o.r.steps).set("allocs", o.r.nalloc).set("reads", o.r.nread).set("writes", o.r.nwrite);
			s.set("output_bytes", (unsigned long long)o.r.sink_len).set("first_stderr_line", o.r.msg).set("verdict", v.cls);
			st.samples.push_back(s);
		}
		if (v.cls.empty()) continue;
		if (g_known_sigs.count(v.sig)) { st.known[v.sig]++; continue; }
		if (unrepro.count(v.cls + "|" + v.sig)) { st.unreproducible[v.cls + " | " + v.sig]++; continue; }
		st.verdicts[v.cls + " | " + v.sig]++;
		if (sigf) { fprintf(sigf, "%s\t%s\t%llu\n", v.cls.c_str(), v.sig.c_str(), (unsigned long long)index); fflush(sigf); }
		std::string key = v.cls + "|" + v.sig;
		if (reported.count(key) || nviol >= max_viol) continue;
		reported.insert(key);
		// gate 1: same plan twice, same event hash and verdict
		Outcome o2;
		Verdict v2 = run_eval(p, &o2, false);
		if (sanitized_build() && (v2.cls != v.cls || v2.sig != v.sig)) {
			// the sanitized build does not own the heap (ASan's allocator) and therefore not every address or stale byte;
			// what it cannot repeat it does not report - the plain build decides address- and garbage-dependent behaviour
			printf("NOTE sanitized build: %s | %s at index %llu did not repeat when the same plan was run again; not reported\n", v.cls.c_str(), v.sig.c_str(), (unsigned long long)index);
			st.unreproducible[v.cls + " | " + v.sig] += st.verdicts[v.cls + " | " + v.sig];
			st.verdicts.erase(v.cls + " | " + v.sig);
			unrepro.insert(key);
			continue;
		}
		if (v2.cls != v.cls || v2.sig != v.sig || (!sanitized_build() && o2.r.ev_hash != o.r.ev_hash)) {
			printf("HARNESS-ERROR nondeterministic: index=%llu first=%s/%s/%s second=%s/%s/%s\n", (unsigned long long)index, v.cls.c_str(), v.sig.c_str(), hex64(o.r.ev_hash).c_str(), v2.cls.c_str(), v2.sig.c_str(), hex64(o2.r.ev_hash).c_str());
			gate_fail++;
			continue;
		}
		g_shrink_runs = 0;
		g_shrink_steps = 0;
		Plan min = opt.count("no-shrink") ? p : minimise(p, v);
		Outcome om;
		Verdict vm = run_eval(min, &om, true);
		if (vm.cls != v.cls || vm.sig != v.sig) { min = p; vm = run_eval(min, &om, true); }
		Json rep = Json::obj();
		rep.set("property", prop).set("class", vm.cls).set("signature", vm.sig).set("detail", vm.detail).set("event_hash", hex64(om.r.ev_hash));
		rep.set("outcome", om.signature).set("stderr", om.r.msg).set("seed", (unsigned long long)seed).set("index", (unsigned long long)index).set("shrink_runs", g_shrink_runs);
		rep.set("build", sanitized_build() ? "sanitized" : under_memcheck() ? "memcheck" : "plain");
		rep.set("plan", min.to_json(false));
		rep.set("original_plan", p.to_json(false));
		if (system(("mkdir -p " + replay_dir).c_str()) != 0) {}
		std::string path = replay_dir + "/" + prop + "-" + hex64(hash_str(vm.cls + vm.sig)).substr(0, 12) + (sanitized_build() ? "-san" : under_memcheck() ? "-memcheck" : "") + ".json";
		write_file(path, rep.str() + "\n");
		// a worker running under valgrind replays under valgrind: same command prefix, handed down by the check
		std::string vgpre = under_memcheck() && getenv("SIMB_VG_PREFIX") ? std::string(getenv("SIMB_VG_PREFIX")) + " " : "";
		std::string rc = vgpre + std::string(selfpath) + " replay " + path + " --repo " + g_repo + (g_featdir.empty() ? "" : " --features " + g_featdir) + (g_owndir.empty() ? "" : " --own " + g_owndir) + " >/dev/null 2>&1";
		int rr = system(rc.c_str());
		if (!(WIFEXITED(rr) && WEXITSTATUS(rr) == 1)) {
			if (sanitized_build()) {
				// heap addresses of the sanitizer's allocator depend on the worker's history and are not part of the plan;
				// address-dependent behaviour is decided by the plain build, whose arena the plan controls completely
				printf("NOTE sanitized build: %s | %s seen at index %llu did not reproduce in a fresh process (address-dependent); not reported\n", v.cls.c_str(), v.sig.c_str(), (unsigned long long)index);
				st.unreproducible[v.cls + " | " + v.sig] += st.verdicts[v.cls + " | " + v.sig];
				st.verdicts.erase(v.cls + " | " + v.sig);
				unrepro.insert(key);
				remove(path.c_str());
				continue;
			}
			printf("HARNESS-ERROR replay-gate: %s did not reproduce in a fresh process (status 0x%x)\n", path.c_str(), rr);
			gate_fail++;
			continue;
		}
		nviol++;
		printf("VIOLATION property=%s replay=%s\n  class: %s\n  signature: %s\n  detail: %s\n  input: %s%s  faults:", prop.c_str(), path.c_str(), vm.cls.c_str(), vm.sig.c_str(), vm.detail.c_str(),
		       min.files[0].source.c_str(), min.files.size() > 1 ? " (+more)" : "");
		for (auto &f : min.faults) printf(" %s@%ld", f.seam.c_str(), f.index);
		printf("\n  minimised in %d re-runs\n", g_shrink_runs);
		fflush(stdout);
	}
	if (hf) fclose(hf);
	if (sigf) fclose(sigf);
	if (sinkf) fclose(sinkf);
	if (opt.count("out")) {
		Json j = Json::obj();
		j.set("runs", (unsigned long long)st.runs).set("steps", (unsigned long long)st.steps).set("distinct", (unsigned long long)st.distinct.size());
		j.set("allocs", (unsigned long long)st.nalloc).set("reads", (unsigned long long)st.nread).set("writes", (unsigned long long)st.nwrite);
		j.set("realloc_moved", (unsigned long long)st.realloc_moved).set("lifo_reused", (unsigned long long)st.lifo_reused).set("maxdepth", (unsigned long long)st.maxdepth).set("dropped_bytes", (unsigned long long)st.dropped_bytes);
		auto m2j = [](const std::map<std::string, uint64_t> &m) { Json o = Json::obj(); for (auto &kv : m) o.set(kv.first, (unsigned long long)kv.second); return o; };
		j.set("configured", m2j(st.configured)).set("fired", m2j(st.firedk)).set("outcomes", m2j(st.outcomes)).set("verdicts", m2j(st.verdicts)).set("known", m2j(st.known)).set("unreproducible_sanitized", m2j(st.unreproducible));
		j.set("sites", m2j(st.sites)).set("axes", m2j(st.axes)).set("workloads", m2j(st.workloads));
		Json fn = Json::arr();
		std::set<std::string> names;
		for (void *f : st.fns) names.insert(fn_name(f));
		for (auto &s : names) fn.push(s);
		j.set("functions", fn);
		Json sm = Json::arr();
		for (auto &s : st.samples) sm.push(s);
		j.set("samples", sm);
		j.set("violations", nviol).set("gate_failures", gate_fail).set("build", sanitized_build() ? "sanitized" : "plain");
		write_file(opt["out"], j.str());
		std::string hp = opt["out"] + ".hashes";
		FILE *f = fopen(hp.c_str(), "wb");
		if (f) { for (uint64_t h : st.distinct) fwrite(&h, 8, 1, f); fclose(f); }
	}
	if (gate_fail) return 2;
	return st.verdicts.empty() ? 0 : 1;
}
