int a = 1 'ccccccccccccccccccccccccccccccccccccccccccccccccccccccccccc€ÿ';
