#define H "x.h"
#include H
int a;
