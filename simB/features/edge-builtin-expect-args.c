int f(int x) { return __builtin_expect(x); }
