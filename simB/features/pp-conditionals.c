#define A 1
#define B
#ifdef A
int a_defined = 1;
#endif
#ifndef C
int c_undefined = 1;
#endif
#ifdef B
int b_defined;
#endif
#undef A
#ifndef A
int a_now_undefined;
#endif
#define A 2
int a2 = A;
