char s[] = "â‚";
char t[] = "ğŸ˜";
char v[] = "Ã";
unsigned short w[] = u"â‚";
