int a __attribute__((aligned(3)));
