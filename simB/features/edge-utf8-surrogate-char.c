int c = u'í°€';
int d = U'í €';
