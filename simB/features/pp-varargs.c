#define LIST(...) { __VA_ARGS__ }
#define FIRST(a, ...) a
#define CALL(f, ...) f(__VA_ARGS__)
#define STR(...) #__VA_ARGS__
int add3(int a, int b, int c) { return a + b + c; }
int arr[] = LIST(1, 2, 3, 4);
int one = FIRST(1, 2, 3);
int six(void) { return CALL(add3, 1, 2, 3); }
const char *s = STR(a, b  ,  c);
const char *t = STR();
