struct S { int a[0]; }; void f(int n) { struct S x[n]; }
