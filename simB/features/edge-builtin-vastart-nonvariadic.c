void f(int x) { __builtin_va_list ap; __builtin_va_start(ap, x); }
