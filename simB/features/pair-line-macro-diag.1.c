#line 10 "gen/header.h"
#define VAL 1 2
int a = 0;
