int a = { 1 }; int b = { { 2 } }; int c = { 1, 2 };
