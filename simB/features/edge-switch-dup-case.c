int f(int x) { switch (x) { case 1: return 1; case 1: return 2; } return 0; }
