int a;
int b = 1 + \
 2;
