enum __attribute__((__packed__)) e { A };
