int Ã© = 1;
char s[] = "ÿþ";
