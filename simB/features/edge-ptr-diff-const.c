int a[4];
long d = &a[3] - &a[0];
