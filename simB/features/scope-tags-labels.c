#define T struct tag
T { int a; };
int f(void) {
	int r = sizeof(T);
	{ T { char c; }; r += sizeof(T); }
	{ r += sizeof(T); }
	{ T { long l[4]; }; { r += sizeof(T); } }
	{ T *p = 0; r += sizeof *p; }
	return r;
}
#define E val
enum { val = 1 };
int g(void) { int r = E; { enum { val = 2 }; r += E; } { r += E; } { enum { val = 3 }; { r += E; } } { r += E; } return r; }
#define TD ty
typedef int ty;
int h(void) { int r = sizeof(TD); { typedef char ty; r += sizeof(TD); } { r += sizeof(TD); } { typedef double ty; { r += sizeof(TD); } } { r += sizeof(TD); } return r; }
