double quarter = (double)1 / 4;
double tenth(void) { return 1e-1; }
double bump(double x) { return x + 15e-1; }
float third = (float)1 / 3;
double hexf = 0x3p-1;
