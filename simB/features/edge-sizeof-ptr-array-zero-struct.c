struct E { int x[0]; };
int f(struct E (*p)[3]) { return sizeof *p; }
