enum e { A = 0x7fffffffffffffff, B };
