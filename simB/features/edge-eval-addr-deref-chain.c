int x;
int *q = &*(int*)&*(int*)&*(int*)&*(int*)&*(int*)&*(int*)&*(int*)&*(int*)&*(int*)&*(int*)&*(int*)&*(int*)&*(int*)&*(int*)&*(int*)&*(int*)&*(int*)&*(int*)&*(int*)&*(int*)&*(int*)&*(int*)&*(int*)&*(int*)&x;
