struct inc; alignas(struct inc) int x;
alignas(void) int y;
