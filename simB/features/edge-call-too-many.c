int f(int a); int g(void) { return f(1, 2); }
