_Alignas(3) char a;
