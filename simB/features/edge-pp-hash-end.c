#define STR(x) #
const char *s = STR(abc);
