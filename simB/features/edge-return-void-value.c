void f(void) { return 1; }
int g(void) { return; }
