void *f(void) { return __builtin_alloca(-1); }
