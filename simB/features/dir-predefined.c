const char *f = __FILE__;
int l = __LINE__;
const char *d = __DATE__ __TIME__;
int c = __COUNTER__ + __COUNTER__;
const char *fn = __func__;
int v = __STDC_VERSION__ + __STDC__;
