#define A B
#define B A + 1
int A;
#undef A
int B;
