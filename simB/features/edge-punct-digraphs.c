%:define X 1
int a<:2:> = <% X, 2 %>;
