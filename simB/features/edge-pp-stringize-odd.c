#define S(x) #x
const char *a = S(\n);
const char *b = S("\\");
const char *c = S('"');
const char *d = S(a
 b   c);
const char *e = S(@);
const char *f = S(L"w" u8"x" '\'');
