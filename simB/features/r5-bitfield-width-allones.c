struct { int : 0xffffffffffffffff; int x; } s; int f(void) { return s.x; }
