int a = '\n\t'; int b = '\x41\x42'; int c = '\101\102\103'; int d = 'abcd'; int e = 'abcde';
