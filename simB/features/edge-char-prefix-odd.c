int a = u8'a'; int b = u8; int c = u8 + 1; int u = 1, L = 2, U = 3; int d = u + L + U; int e = L'a' + U'b' + u'c';
