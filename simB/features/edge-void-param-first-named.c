void f(void, int a);
