struct s { int a : -1; };
