unsigned a = 1u / 0u;
unsigned long long b = 5ull % 0ull;
