void f(void) { char c = *"a"; }
