char a[] = u8"a" "b" u8"c"; int u8 = 0; unsigned b[] = U"a" "b" U"c"; unsigned short c[] = u"a" U"b";
