#define node xyzlib_2_4_internal_list_node_with_long_prefix
#define pt p2
struct node { int v; long w; };
struct node make(int);
struct node first;
struct pt { double x, y; };
struct pt origin(void);
struct node use(struct node a, struct pt b)
{
	struct node c = a;
	struct pt d = b;
	c.v += (int)d.x;
	return c;
}
union node2 { int i; float f; };
#define u2 node2
union u2 conv(union u2 a) { union u2 b = a; return b; }
enum color { RED };
#define col color
enum col pick(void) { enum col c = RED; return c; }
