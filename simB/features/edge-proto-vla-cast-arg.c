void g(int n, int (*a)[n]);
void h(void) { g(3, (void *)0); }
