int café = 1;
