int x; int *p = (int[]){ x };
