char a[1ull << 62][8];
