int f(int x) { return x / 0 + x % 0 + 1 / 0; }
