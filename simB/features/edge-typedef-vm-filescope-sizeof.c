int n;
typedef int T[n];
int f(void) { return 0; }
int g(void) { return sizeof(T); }
