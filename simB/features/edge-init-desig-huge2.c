int a[] = { [0x1fffffffffffffff] = 1 };
