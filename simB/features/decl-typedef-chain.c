typedef int T1;
typedef T1 T2;
typedef T2 *P1;
typedef P1 A1[3];
typedef int (*FP)(T1, T2);
typedef FP FPA[2];
typedef struct node { struct node *next; T1 v; } Node;
static int add(T1 a, T2 b) { return a + b; }
FPA table = { add, add };
A1 arr;
Node n1 = { 0, 1 }, n2 = { &n1, 2 };
int use(void) { return table[1](n2.next->v, n2.v) + sizeof(A1) / sizeof(P1); }
