int a = 1; /* comment runs to the end of the first file
