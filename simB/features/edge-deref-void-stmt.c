void *p;
void f(void) { *p; }
