enum color { RED, GREEN = 5, BLUE, MAX = 0x7fffffff };
enum big { BIG = 0x100000000 };
enum neg { N = -1, Z, P };
enum color c = BLUE;
int f(enum color x) { switch (x) { case RED: return 1; case GREEN: return 2; default: return N; } }
_Static_assert(BLUE == 6, "enum");
_Static_assert(sizeof(enum big) == 8, "big");
