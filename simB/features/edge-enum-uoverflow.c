enum e { A = 0xffffffffffffffff, B };
