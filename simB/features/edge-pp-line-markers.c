# 1 "a.c"
int x = 1 +;
