#warning
int x;
#error stop here now
