int a[2], b[2]; void f(void) { a = b; }
