#define STR(x) # y
const char *s = STR(abc);
