double a = .5, b = 5., c = 1e+5, d = 1.e-5, e = 0x1.p+3, f = 1E5f;
int g = 0x1e+1;
