char a[] = "\xfff";
