unsigned short s[] = u"í°€";
