int x; int g(void) { return x(); }
