#define F(x, y) x y
int F(a,
#pragma once
);
int F(
#line 7
b, );
