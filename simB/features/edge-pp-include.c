#include <stdio.h>
int a;
