int a = 1 + \ 
 2;
