int f(void, int);
