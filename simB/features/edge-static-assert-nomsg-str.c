_Static_assert(1, 2);
