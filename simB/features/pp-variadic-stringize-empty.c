#define TRACE(fmt, ...) fmt #__VA_ARGS__
const char *a = TRACE("x");
const char *b = TRACE("y", 1, 2);
const char *c = TRACE("z",);
