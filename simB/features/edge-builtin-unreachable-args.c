void f(void) { __builtin_unreachable(1); }
