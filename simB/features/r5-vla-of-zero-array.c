void f(int n) { int a[n][0]; }
