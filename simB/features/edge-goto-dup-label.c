void f(void) { l: ; l: ; goto l; }
