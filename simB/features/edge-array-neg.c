int a[-1];
