#define X v
#define Y w
#define G(a) ((a) + X)
int v = 1, w = 10;
int f(void) {
	int r = 0;
	{ int v = 2; r += X; }
	{ r += X; }
	{ int v = 3; { r += X; } { int w = 20; r += X + Y; } { r += Y; } }
	{ r += G(1); }
	{ long v = 4; r += (int)sizeof X; }
	{ r += (int)sizeof X; }
	return r;
}
int g(int v) { { extern int w; { int w = 5; v += Y; } { v += Y; } } return v + X; }
int h(void) { int r = 0; for (int v = 7; v < 8; v++) r += X; for (int i = 0; i < 1; i++) r += X; return r; }
