unsigned long long a = 18446744073709551616;
