struct e { } v;
int a = sizeof v;
