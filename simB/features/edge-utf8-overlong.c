char s[] = "À€Á¿";
char t[] = "à€€";
char v[] = "ð€€€";
