﻿int after_bom = 1;
