char a[] = "ab\
cd";
char b[] = "\
";
int c = '\
a';
