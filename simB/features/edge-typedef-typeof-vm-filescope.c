int n;
typedef typeof(*(int (*)[n])0) T;
