struct pt { int x, y; };
int sum(struct pt p) { return p.x + p.y; }
int *ip = (int[]){ 1, 2, 3 };
struct pt *pp = &(struct pt){ 4, 5 };
int f(int a) { return sum((struct pt){ a, 2 }) + ((int[]){ 1, 2, 3 })[1] + *(int *)&(int){ a }; }
const char *g(void) { return (const char[]){ "lit" }; }
