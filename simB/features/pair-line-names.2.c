int y = ;
