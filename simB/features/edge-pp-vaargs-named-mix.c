#define F(a, ...) a __VA_ARGS__ #__VA_ARGS__ #a
const char *s = F("x", "y" "z");
const char *t = F("x");
