int f(void)(void);
