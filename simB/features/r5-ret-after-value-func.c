int two(void) { return 2; }
void nothing(void) { }
long three(long a) { if (a) return 3; return a + 1; }
void side(int *p) { *p = 1; }
double half(void) { return 0.5; }
void last(void) { int x = two(); (void)x; }
