int a = 1e; int b = 0x; int c = 1.2.3; int d = 09; int e = 0b2; int f = 1ee5; int g = 0x1p;
