void f(void) { struct { _Alignas(32) char c; int y; } s = { .y = 1 }; }
