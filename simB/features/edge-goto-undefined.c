void f(void) { goto nowhere; }
