int f(unsigned long long c)
{
	switch (c) {
	case 0xfffffffffffffff0 ... 0xffffffffffffffff: return 1;
	case 0 ... 2: return 2;
	}
	return 0;
}
