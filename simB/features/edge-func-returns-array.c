int f(void)[3];
