struct pad { int : 8; } v = { 1 };
