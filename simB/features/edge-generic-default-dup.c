int a = _Generic(1, default: 1, default: 2);
