struct s { int a; } v; int f(void) { return (int)v; }
