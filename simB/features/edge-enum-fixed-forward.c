enum E : int;
enum E { A };
enum E e = A;
