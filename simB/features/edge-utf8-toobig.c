unsigned int s[] = U"";
unsigned int t[] = U"";
unsigned short w[] = u"";
