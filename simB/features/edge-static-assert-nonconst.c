int x; _Static_assert(x, "m");
