#line 100
int a;
#line 200 "other.c"
int b;
#pragma once
#pragma GCC diagnostic push
int c;
# 300 "third.c"
int d;
