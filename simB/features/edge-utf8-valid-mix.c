char s[] = "héllo € 😀";
unsigned short w[] = u"é€😀";
unsigned int x[] = U"😀􏿿";
int c = L'€' + u'é' + U'😀';
