int a = _Generic(1.0f, int: 1, long: 2);
