char a[] = "\x00000000000041";
unsigned b[] = U"\x0010ffff\x00110000";
