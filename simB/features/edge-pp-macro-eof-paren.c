#define F(x) x
#define G F(
int a = G 1);
int b = G