void f(void) { nullptr; }
