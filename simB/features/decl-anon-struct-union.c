struct outer { int tag; union { int i; float f; struct { short lo, hi; }; }; struct { char c; } named; };
struct outer o = { 1, { 2 }, { 'x' } };
struct outer p = { .tag = 3, .f = 1.5f, .named.c = 'y' };
struct outer q = { .lo = 1, .hi = 2 };
int get(struct outer *x) { return x->tag + x->i + x->lo + x->hi + x->named.c; }
