void f(void) { __builtin_va_list ap = {1}; }
