_Alignas(0x8000000000000000) char a;
