struct s { int a; } v = { 1, 2 };
