#define S(x) #x
#define XS(x) S(x)
#define N 42
const char *a = S(hello world);
const char *b = S("quoted \"string\"");
const char *c = S('c');
const char *d = XS(N);
const char *e = S(  spaced   out  );
const char *f = S(a + b * (c - d));
const char *g = S(int);
