enum E : struct S { int a; } { A };
