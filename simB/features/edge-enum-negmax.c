enum e { A = -9223372036854775807LL - 1, B, C = 0x7fffffff, D };
int x = sizeof(enum e);
