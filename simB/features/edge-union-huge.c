union u { char a[0x7fffffffffffffff]; long b; } *p;
int f(void) { return sizeof *p; }
