[[vendor::thing(1, (2, 3), "s", [4])]] int a;
int b [[x(]] ;
