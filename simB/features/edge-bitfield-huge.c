struct s { int a : 0x7fffffffffffffff; };
