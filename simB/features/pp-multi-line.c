#define LONG(a, b) \
	((a) + \
	 (b))
int x = LONG(1, \
	2);
int y = LONG(
	3,
	4
);
/* comment spanning
   lines */ int z; // trailing
int w = 1 /* inline */ + 2;
