void v;
