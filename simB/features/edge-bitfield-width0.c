struct s { int a : 0; int b; };
