int f(int n) {
	int s = 0, i, j;
	for (i = 0; i < n; i++) { if (i == 3) continue; if (i == 8) break; s += i; }
	for (;;) { if (s > 100) break; s += 50; }
	for (int k = 0, m = 1; k < 3; k++, m *= 2) s += m;
	while (n > 0) { n--; if (n & 1) continue; s++; }
	do s++; while (s < 0);
	do { s--; } while (0);
	switch (n) { case 0: s++; case 1: s += 2; break; case 2: { int t = 3; s += t; } break; default: s--; }
	switch (s) default: s++;
	if (s) ; else s = 1;
	if (s > 5) if (s > 6) s = 6; else s = 5;
	goto end;
	s = 999;
end:
	for (i = 0; i < 2; i++) for (j = 0; j < 2; j++) { if (j) goto out; }
out:
	return s;
}
