int f(long long x) { switch (x) { case (-9223372036854775807LL-1) % (0-1): return 1; } return 0; }
