#define F(x) x + x
int a = F(
#define Z 3
Z);
