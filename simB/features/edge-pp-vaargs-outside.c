int __VA_ARGS__;
#define F(x) __VA_ARGS__
int F(1);
