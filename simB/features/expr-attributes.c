[[noreturn]] void die(void);
[[maybe_unused]] static int u;
[[deprecated("x")]] int old(void);
struct [[gnu::packed]] pk { char c; int i; };
struct __attribute__((packed)) pk2 { char c; int i; };
int al __attribute__((aligned(32)));
[[gnu::aligned(16)]] int al2;
void ctor(void) __attribute__((constructor));
int f(int x [[maybe_unused]]) { [[fallthrough]]; return sizeof(struct pk) + sizeof(struct pk2); }
int g(void) __asm__("g_renamed");
