#define T(x) _Generic((x), int: 1, long: 2, double: 3, char *: 4, default: 0)
_Static_assert(T(1) == 1, "int");
_Static_assert(T(1L) == 2, "long");
_Static_assert(T(1.0) == 3, "double");
_Static_assert(T("s") == 4, "char*");
_Static_assert(T(1.0f) == 0, "default");
static_assert(sizeof(int) == 4);
int f(void) { return _Generic(1u, unsigned: 10, default: 20); }
