alignas(int(void)) int x;
