struct s { _Bool a : 1; _Bool b : 2; };
