#define F(x) x
int a = F