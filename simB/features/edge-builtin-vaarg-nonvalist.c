int f(int x) { return __builtin_va_arg(x, int); }
