union u { char s[4]; int i; } v = { .s = "abc", .i = 7 };
struct t { union { char c[4]; int i; }; } w = { .c = "ab", .c[1] = 'x' };
