struct s { char a[0x7ffffffffffffff0]; char b[64]; };
