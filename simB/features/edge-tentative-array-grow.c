int a[]; int a[4]; extern int b[]; int b[2] = {1, 2}; int use(void) { return sizeof a + sizeof b; }
