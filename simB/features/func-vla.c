int f(int n, int m) {
	int a[n], b[n][m], (*p)[m] = b;
	int s = 0;
	for (int i = 0; i < n; i++) { a[i] = i; for (int j = 0; j < m; j++) b[i][j] = i * j; }
	s += sizeof a + sizeof b + sizeof *p + sizeof(int[n + 1]);
	s += a[n - 1] + b[n - 1][m - 1] + p[1][1];
	typedef int row[m];
	row r; r[0] = 1; s += r[0] + sizeof(row);
	return s;
}
void g(int n, int a[n][n], int (*q)[n]) { a[0][0] = q[0][0]; }
