int a = (int)(0.0/0.0);
