struct s { int a : 33; };
