#define CALL(f, ...) f(__VA_ARGS__)
int g(void);
int h(void) { return CALL(g); }
