#line 4294967295
int a;
#line 99999999999999999999
int b;
#line 0
int c +;
