int a = 1 << -1;
int b = -1 << 1;
int c = 8 >> -2;
