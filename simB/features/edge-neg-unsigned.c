unsigned a = -1;
unsigned long long b = -1;
unsigned char c = 256 + 255;
_Bool d = -1;
