int a = _Generic(1, int: 1, int: 2);
