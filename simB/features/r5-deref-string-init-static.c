char c = *"a";
