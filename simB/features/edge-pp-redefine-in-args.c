#define F(x) x
int a = F(
#define F(y) y y
1);
int b = F(2);
