int a = 1 ;
int b = 2 ÿ;
int c = 3 ;
