int a = 1 +\
\
\
\
\
\
\
 2;
#define L a \
 b \
 c
int L;
