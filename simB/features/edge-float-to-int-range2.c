unsigned long long a = (unsigned long long)-1.0;
