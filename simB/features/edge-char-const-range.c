int a = '\777';
