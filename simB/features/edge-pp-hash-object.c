#define H # x
int H;
