#line 5 foo
int a;
