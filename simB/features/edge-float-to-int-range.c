int a = (int)1e30;
