#define F(a, a) a
int x = F(1, 2);
