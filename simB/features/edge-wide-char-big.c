int a = L'\xffffffff';
unsigned short b = u'\xffff';
