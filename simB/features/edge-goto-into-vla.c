void f(int n) { goto l; { int a[n]; l: a[0] = 1; } }
