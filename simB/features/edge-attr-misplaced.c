[[gnu::packed]] int x;
