int x = 1;
typedef int T;
int f(int x) { { int x = 3; { extern int x; return x; } } }
int g(void) { int T = 2; return T; }
int h(void) { T T = 3; return T; }
struct x { int x; };
int i(struct x x) { return x.x; }
int j(void) { int a = 1; { int a = a + 1; return a; } }
enum { x2 = 1 };
int k(void) { enum { x2 = 2 }; return x2; }
void l(void) { goto x; x: ; }
