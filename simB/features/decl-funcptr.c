int (*fp)(int);
int (*arr[4])(int, int);
int (*(*ret(void))[3])(int);
void (*signal(int, void (*)(int)))(int);
typedef void handler(int);
handler *set(int, handler *);
int apply(int (*f)(int), int x) { return f(x); }
int twice(int x) { return 2 * x; }
int r(void) { fp = twice; return apply(fp, 3) + (*fp)(4) + (***fp)(5); }
