void f(void) { struct { _Alignas(16) char c; int y; } s = { .y = 1 }; }
