int a; ﻿ int b;
