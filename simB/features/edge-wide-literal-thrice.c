int wprintf(const int *, ...);
int f(void) { return wprintf(L"%ls%ls", L"ab", L"ab", L"ab"); }
