struct s { long long a : 65; };
