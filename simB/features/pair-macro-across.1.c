#define G(x, y) x + y
int c = G(1,
