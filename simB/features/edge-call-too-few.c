int f(int a, int b); int g(void) { return f(1); }
