#define M 1
#define F(x) x
struct tag { int a; };
int first = M;
