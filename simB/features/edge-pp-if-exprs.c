#if 1 + 1 == 2
int a;
#elif 0
int b;
#else
int c;
#endif
