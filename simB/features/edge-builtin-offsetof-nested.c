struct s { struct { int a[3]; int b; } in; }; unsigned long a = __builtin_offsetof(struct s, in.a[2]);
unsigned long b = __builtin_offsetof(struct s, in.a[9]);
