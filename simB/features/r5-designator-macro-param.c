struct S { int x, y; };
#define BOTH(m) { .m = 1 }, { .m = 2 }
struct S a[2] = { BOTH(y) };
