int x;
typeof(x) y;
typeof(int *) p;
typeof_unqual(const int) z;
_Alignas(16) char buf[32];
alignas(long) char c;
int a1 = _Alignof(long), a2 = alignof(buf);
int f(void) { typeof(x + 1L) w = 3; return sizeof w + sizeof(typeof(buf)); }
