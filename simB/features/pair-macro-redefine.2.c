#define M 2
struct tag { int b; };
int second = F(M);
