int f(void v) { return 0; }
