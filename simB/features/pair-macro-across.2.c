2);
int d = G(3, 4);
