int a[3]; int f(void) { return a[.5 > 0] + a[0]...1; }
