void f(int a, void);
void g(void) { f(1, 2); }
