int a[10 / 0];
