void *p; int f(void) { return *p; }
