struct s { struct { int a, b; }; int c; } v = { .a = { 1 }, 3 };
struct t { struct { int a[2]; }; int c; } w = { .a = { 1, 2 }, 3 };
