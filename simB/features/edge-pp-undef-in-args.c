#define F(x) x
int a = F(
#undef F
1);
