_Static_assert(sizeof(int) == 3, "int is not 3 bytes");
