struct s { int n; char s[4]; } v = { .s[4] = 'x' };
