union u { int a; double b; } v = { .b = 1.5 }; union u w = { 1, 2 };
