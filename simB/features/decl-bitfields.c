struct bf { unsigned a : 3; int b : 5; unsigned : 0; unsigned c : 1; long d : 40; _Bool e : 1; };
struct bf v = { 5, -3, 1, 123456789, 1 };
int get(struct bf *p) { return p->a + p->b + p->c + p->d + p->e; }
void set(struct bf *p, int x) { p->a = x; p->b = x; p->c = x; p->d = x; p->e = x; p->a += 1; p->b++; --p->d; }
