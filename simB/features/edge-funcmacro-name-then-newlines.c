#define F(x) x
int F







;
int G = F






(3);
