int f(int x) { return (x << 40) + (x >> 33) + (1 << x); }
