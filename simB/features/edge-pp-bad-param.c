#define F(1) x
#define G(a b) a
#define H(a,) a
#define I(
