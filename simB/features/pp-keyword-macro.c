#define I int
#define R return
#define S static
#define V void
I x; I y;
S I f(V) { R x + y; }
S I g(V) { R f() + f(); }
I main(V) { R g(); }
