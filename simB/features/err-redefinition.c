int x = 1; int x = 2;
