int a = 1 "sssssssssssssssssssssssssssssssssssssssssssssssssssssssssssstttttttttt";
