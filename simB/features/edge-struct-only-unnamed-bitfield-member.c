struct pad { int : 8; };
struct o { struct pad p; int x; } v;
