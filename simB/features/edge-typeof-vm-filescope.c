int n;
typeof(*(int (*)[n])0) x;
