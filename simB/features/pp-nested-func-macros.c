#define ADD(a, b) ((a) + (b))
#define MUL(a, b) ((a) * (b))
#define SQ(x) MUL(x, x)
#define ID(x) x
#define APPLY(f, x) f(x)
int a = ADD(1, MUL(2, 3));
int b = SQ(ADD(1, 2));
int c = ID(ID(ID(4)));
int d = APPLY(SQ, 5);
int e = ADD(ADD(ADD(1, 2), 3), SQ(SQ(2)));
