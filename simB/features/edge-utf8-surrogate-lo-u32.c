unsigned int s[] = U"í¿¿";
