#define F(a, b) a + b
int x = F(1, (2, 3);
