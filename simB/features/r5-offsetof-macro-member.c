#define M y
struct S { int x, y; };
int a = __builtin_offsetof(struct S, M);
int b = __builtin_offsetof(struct S, M);
int M = 3;
