char s[] = "€¿";
unsigned int u[] = U"€";
