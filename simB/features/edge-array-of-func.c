int a[3](void);
