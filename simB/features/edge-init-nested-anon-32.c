struct s { struct { struct { struct { struct { struct { struct { struct { struct { int x; }; }; }; }; }; }; }; }; } v = { .x = 1 };
