struct s { long long a : 64; unsigned long long b : 64; } v = { -1, -1 };
long long f(struct s *p) { return p->a + p->b; }
