#define f(a) a*g
#define g(a) f(a)
int x = f(2)(9);
