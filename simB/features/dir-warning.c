#warning this goes where
int after_warning;
