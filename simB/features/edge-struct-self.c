struct s { struct s m; };
