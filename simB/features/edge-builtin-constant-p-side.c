int f(int x) { return __builtin_constant_p(x++) + __builtin_constant_p(3); }
