int f(int x) { return x ? 1 : x ? 2 : x ? 3 : x ? 4 : x ? 5 : x ? 6 : x ? 7 : x ? 8 : 9; }
