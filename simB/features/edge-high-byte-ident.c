int cafÃ© = 1;
int ÿş;
