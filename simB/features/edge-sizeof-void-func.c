int f(void);
int a = sizeof(f);
