double a = 1e999;
float b = 1e39f;
double c = 1e-999;
double d = 0x1p99999;
