int f(int c)
{
	switch (c) {
	case 5 ... 1: return 1;
	case 7 ... 7: return 2;
	}
	return 0;
}
