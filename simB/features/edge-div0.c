int a = 1 / 0;
