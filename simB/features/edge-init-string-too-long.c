char a[2] = "abc";
