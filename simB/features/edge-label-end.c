void f(void) { l: }
void g(void) { goto m; { m: } }
