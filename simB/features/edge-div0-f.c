double a = 1.0 / 0.0;
double b = 0.0 / 0.0;
float c = -1.0f / 0;
