float f = __builtin_nanf("1");
