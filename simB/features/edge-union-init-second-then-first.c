union { int a; long b; } u = { .b = 5, .a = 1 };
