int x = sizeof(int(void)){0};
