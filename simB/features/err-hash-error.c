#define X 1
#error this is an error X
int after;
