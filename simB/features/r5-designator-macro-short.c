struct S { int x, y; };
#define M x
struct S s = { .M = 1 };
struct S t = { .M = 2 };
struct S u = { .M = 3 };
