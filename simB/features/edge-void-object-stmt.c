extern void v;
void f(void) { v; }
