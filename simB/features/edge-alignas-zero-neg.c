_Alignas(0) char a;
_Alignas(-8) char b;
