int a1; static int s1; int a2; static int s2; int a3, a4; static int s3, s4;
extern int e1; int e1; static int s5; int a5 = 5; int a6; int a7; int a8; int a9;
int use(void) { return a1 + s1 + a2 + s2 + a3 + a4 + s3 + s4 + e1 + s5 + a5 + a6 + a7 + a8 + a9; }
char c1; short c2; long c3; double c4; char c5[3]; struct { int x; } c6; union { int y; } c7; int *c8; int (*c9)(void);
