char a[8] = {"abc", [6] = 'x'};
