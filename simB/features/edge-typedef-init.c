typedef int T = 3;
