const char *p = "a";
const int *q = L"a";
const unsigned short *r = u"a";
