#line -3
int a;
