struct T { long a[2]; };
int f(void) {
	int r = 0;
	{ struct T { char c; }; struct T v; r += sizeof v; r += sizeof(struct T); }
	{ r += sizeof(struct T); struct T w; r += sizeof w; }
	{ union T2 { int i; }; { r += sizeof(union T2); } }
	{ r += sizeof(struct T); }
	return r;
}
