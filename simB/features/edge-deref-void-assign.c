void *p;
void f(void) { *p = 1; }
