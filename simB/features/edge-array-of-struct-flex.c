struct E { int n; int x[]; };
void f(void) { struct E e[4]; }
