char s[] = "í°€";
