typedef __builtin_va_list va_list;
int sum(int n, ...) {
	va_list ap, aq;
	int s = 0;
	__builtin_va_start(ap, n);
	__builtin_va_copy(aq, ap);
	while (n--) s += __builtin_va_arg(ap, int);
	s += (int)__builtin_va_arg(aq, double);
	__builtin_va_end(ap);
	__builtin_va_end(aq);
	return s;
}
int call(void) { return sum(3, 1, 2, 3) + sum(1, 2.5); }
