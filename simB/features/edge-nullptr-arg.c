void g(void *); void f(void) { g(nullptr); }
void *h(void) { return nullptr; }
