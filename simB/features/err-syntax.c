int f(void) { return 1 +; }
