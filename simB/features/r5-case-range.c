int f(int c)
{
	switch (c) {
	case 1 ... 3: return 1;
	case 10: return 2;
	case -3 ... -1: return 3;
	case 'a' ... 'f': return 4;
	}
	return 0;
}
