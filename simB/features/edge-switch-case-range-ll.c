int f(int x) { switch (x) { case 0x100000000: return 1; case -0x100000000: return 2; } return 0; }
