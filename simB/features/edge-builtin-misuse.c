int a = __builtin_offsetof(int, x);
