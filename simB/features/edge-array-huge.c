char a[0x7fffffffffffffff];
