struct s { int x; } v; int f(void) { return v..x; }
int g(int a, ...);
int h(int a, ..);
