struct pad { int : 8; };
