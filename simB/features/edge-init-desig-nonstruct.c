int a = { .x = 1 };
