int a; // ÿ comment
int b = 2;
