struct S { char a[0xffffffffffffffff]; int b; } s = { .a = "x" };
