void g(int n, int (*a)[n]);
void h(void) { g(3, (void *)0); g(3, 0); }
void k(int n, int (*a)[n]) { (void)sizeof(*a); }
void m(int x) { int b[x][x]; k(3, 0); k(x, b); k(2, (void *)b); }
