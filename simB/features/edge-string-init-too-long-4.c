char a[3] = "abcd";
