#define A B
#define B C
#define C D
#define D 7
#define SELF SELF + 1
#define P Q
#define Q P
int a = A;
int SELF;
int P;
int Q;
