int f(long long x) {
	switch (x) {
	case -5: return 1;
	case 0: return 2;
	case 1LL << 40: return 3;
	case -(1LL << 40): return 4;
	case 'a': case 'b': case 'c': return 5;
	case 100: case 101: case 102: case 103: case 104: case 105: case 106: case 107: return 6;
	case 1000: return 7;
	case 999: return 8;
	case 1001: return 9;
	}
	return 0;
}
int g(unsigned char c) { switch (c) { case 255: return 1; case 0: return 2; case 128: return 3; } return 0; }
