void f(void); typeof(f()) *p;
