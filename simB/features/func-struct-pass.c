struct small { char c; };
struct two { int a, b; };
struct fl { float x, y; };
struct mix { double d; int i; };
struct big { long a[5]; };
struct small f1(struct small s) { s.c++; return s; }
struct two f2(struct two t) { t.a += t.b; return t; }
struct fl f3(struct fl f) { f.x *= f.y; return f; }
struct mix f4(struct mix m, int k) { m.i += k; return m; }
struct big f5(struct big b, struct big *p) { b.a[0] = p->a[4]; return b; }
int use(void) { struct big b = { { 1, 2, 3, 4, 5 } }; return f1((struct small){ 1 }).c + f2((struct two){ 1, 2 }).a + (int)f3((struct fl){ 2, 3 }).x + f4((struct mix){ 1.0, 2 }, 3).i + (int)f5(b, &b).a[0]; }
