enum E;
void f(enum E *p) { *p; }
