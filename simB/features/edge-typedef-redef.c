typedef int T; typedef int T; typedef long T;
