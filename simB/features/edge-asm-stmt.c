void f(void) { __asm__("nop"); }
