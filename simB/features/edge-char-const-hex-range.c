int a = '\xfffffffff';
