struct s { int a : 3; } v; int *p = &v.a;
