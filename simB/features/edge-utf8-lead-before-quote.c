char s[] = "abcğ";
int c = 'ñ';
unsigned int u[] = U"ô";
