still comment */ int b = 2;
