#define F(x) x
#define G(x) x
int a = F(G(
#undef F
1));
