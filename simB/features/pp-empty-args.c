#define TWO(a, b) a b
#define ONE(a) [a]
#define NONE() 3
int TWO(x,);
int TWO(,y);
int z ONE() = {0};
int n = NONE();
int m = NONE ();
#define PAREN (1 + 2)
int p = PAREN;
#define FN NONE
int q = FN();
