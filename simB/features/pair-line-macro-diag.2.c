int b = VAL;
