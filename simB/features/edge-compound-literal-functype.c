void f(void) { (int(void)){0}; }
