struct S { int a; } s; void g(void) { s++; --s; }
