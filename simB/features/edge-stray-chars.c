int a = 1 @ 2;
int b = 3 $ 4;
int c = `5`;
