typeof(int(void)) f { return 0; }
