int a; // ÿ comment
int b; /* ÿ */ int c;
