struct s { int a; }; int f(struct s v) { return v + 1; }
