_Alignas(1 << 30) char a;
_Alignas(4096) char b;
int f(void) { _Alignas(65536) char c; return c; }
