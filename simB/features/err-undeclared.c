int f(void) { return undeclared_name; }
