#define F(x) x
#define G(x) F
int a = G(1)(2);
int b = F(F)(3);
int c = F(G)(4)(5);
