struct s { int n; int a[]; } v = { 1, { 2, 3 } };
