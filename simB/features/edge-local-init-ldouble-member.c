void f(void) { struct { long double x; int y; } s = { .y = 1 }; }
