static int counter(void) { static int n; static int m = 5; return ++n + m; }
inline int in1(int x) { return x + 1; }
extern inline int in2(int x) { return x + 2; }
static inline int in3(int x) { return x + 3; }
_Noreturn void stop(void);
int tent; int tent; extern int ext; int tent = 3;
static int sfwd(int);
int use(void) { return counter() + in1(1) + in2(2) + in3(3) + sfwd(4) + tent + ext; }
static int sfwd(int x) { return x * 2; }
