int f(int x) { switch (x) { } switch (x) ; return 0; }
