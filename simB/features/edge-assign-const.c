const int c = 1; void f(void) { c = 2; }
