unsigned short w[] = u"￾￿";
unsigned int x[] = U"􏿿";
