int t[];
int t[16];
int t[];
int *pick(typeof(t) p, int i) { p = p + i; return p; }
