unsigned long long a = 18446744073709551615;
unsigned long long b = 0xffffffffffffffffu;
long long c = 9223372036854775808;
