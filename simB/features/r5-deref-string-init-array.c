void f(void){ char x[][4] = { "abc", *"xyz" }; }
