struct s { int a[]; int b; };
