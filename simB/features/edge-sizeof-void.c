int a = sizeof(void);
