int a = 1 << 32;
int b = 1 << 64;
long long c = 1LL << 63;
int d = 1 >> 100;
