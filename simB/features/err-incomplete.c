struct inc; struct inc v; int f(void) { return sizeof(struct inc); }
