struct E { int x[0]; };
void f(void) { struct E e[4]; }
