int f(void) { return sizeof(char[0x7fffffffffffffff][2]); }
