_Thread_local int t1;
static thread_local int t2 = 2;
extern _Thread_local int t3;
static int s1; static int s1;
extern int e1; int e1 = 1;
int get(void) { return t1 + t2 + t3 + s1 + e1; }
static int f(void); int g(void) { return f(); } static int f(void) { return 1; }
