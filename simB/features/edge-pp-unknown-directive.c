#frobnicate 1 2 3
int a;
