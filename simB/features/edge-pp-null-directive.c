#
# 
#/* c */
int a;
