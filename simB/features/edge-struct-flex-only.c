struct s { int a[]; } v;
