typedef int F(int a);
F f { return a; }
