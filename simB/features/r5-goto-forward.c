int work(int);
int f(int n)
{
	int r = 0;
	if (n < 0)
		goto out;
	r = work(n) + work(n + 1);
	if (r > 10)
		goto fail;
	r += work(r);
out:
	return r;
fail:
	return -1;
}
int g(int n)
{
	goto done;
	{ int a[4] = {1, 2, 3, 4}; n += a[n & 3]; }
again:
	n += work(n);
done:
	if (n & 1)
		goto again;
	return n;
}
