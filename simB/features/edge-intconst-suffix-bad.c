int a = 12xyz;
