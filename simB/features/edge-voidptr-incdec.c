void *p; struct inc *q; void g(void) { p++; q++; }
