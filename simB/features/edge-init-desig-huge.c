int a[] = { [0x7fffffffffffffff] = 1 };
