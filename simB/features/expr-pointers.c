struct s { int a; char b[8]; struct s *n; };
int f(int *p, int *q, struct s *s, char **argv, void *v) {
	int r = 0;
	r += *p + p[1] + *(p + 2) + 3[p];
	r += (int)(q - p) + (p < q) + (p == q) + (p != 0) + !p;
	r += s->a + s->b[1] + s->n->a + (*s).a + (&s->a)[0];
	r += **argv + argv[1][0] + *argv[2];
	r += *(int *)v + ((struct s *)v)->a + *(char *)v;
	p++; --q; p += 2; q -= 1;
	int arr[4] = { 1, 2, 3, 4 }, *e = arr + 4, (*pa)[4] = &arr;
	r += e[-1] + (*pa)[2] + (int)(e - arr) + (int)sizeof *pa;
	return r;
}
