void (*fp)(void); void f(void){ fp++; }
