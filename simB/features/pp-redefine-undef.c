#define X 1
int x1 = X;
#undef X
#define X 2
int x2 = X;
#undef X
#undef X
#define F(a) a
#undef F
#define F(a, b) a b
int F(y, z);
#define EMPTY
EMPTY int EMPTY w EMPTY;
