#define S(x) #x
char *p = S(\);
char *q = S(a \);
_Static_assert(1, S(\));
