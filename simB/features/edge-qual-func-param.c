typedef void F(void);
void g(const F f);
