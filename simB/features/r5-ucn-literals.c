char a[] = "é\U0001F600";
char b = 'A';
unsigned short c[] = u"é\uD83D";
unsigned int d[] = U"\U00110000";
char e[] = u8"\uDC00";
int été = 1;
