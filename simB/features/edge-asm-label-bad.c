int a __asm__(3);
