int n;
int (*g(void))[n];
unsigned long h(void) { return sizeof(*g()); }
unsigned long k(void) { return sizeof(*g()); }
