const char *f = __FILE__;
int l = __LINE__;
#line 40 "renamed.c"
const char *g = __FILE__; int m = __LINE__;
