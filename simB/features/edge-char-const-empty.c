int a = '';
