struct s { int a; } v = { .b = 1 };
