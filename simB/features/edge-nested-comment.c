/* a /* b */ int x; /* c */
