int f(void) { char a[0x7fffffffffffffff]; return a[0]; }
