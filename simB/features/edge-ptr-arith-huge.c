char a[4];
char *p = a + 0x7fffffffffffffff;
char *q = &a[-1];
