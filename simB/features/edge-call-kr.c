int f(); int g(void) { return f(1, 2.0, "s"); }
