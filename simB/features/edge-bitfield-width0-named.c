struct s { int a : 0 + 0; } ;
struct t { int x : 0; };
