int f(int a, int b, unsigned u, long l, double d, float fl, char c, short s, _Bool bo) {
	int r = 0;
	r += a + b - a * b / (b ? b : 1) % (a ? a : 1);
	r += a << 3 >> 1; r ^= a & b | ~a;
	r += u / 3u + u % 7u + (u >> 2);
	r += (int)(l * 3 / 2) + (int)d + (int)(fl * 2.5f) + c + s + bo;
	r += a < b; r += a <= b; r += a > b; r += a >= b; r += a == b; r += a != b;
	r += !a + -a + +a + (a && b) + (a || b);
	r += d < fl; r += d == 1.0; r += u > 2u;
	r += a ? b : c; r += (a, b);
	r += ++a + a++ + --b + b--;
	a += 1; a -= 2; a *= 3; a /= 2; a %= 5; a <<= 1; a >>= 1; a &= 0xff; a |= 1; a ^= 2;
	d += 1; d *= 2; fl -= 1; l <<= 3; u >>= 1; c += 1; s *= 2;
	return r + a + (int)d + (int)fl + (int)l + (int)u + c + s;
}
