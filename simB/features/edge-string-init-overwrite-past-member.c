struct s { char a[8]; } v = { .a = "abc", .a[6] = 'x' };
