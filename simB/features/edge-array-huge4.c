char a[0xffffffffffffffff];
