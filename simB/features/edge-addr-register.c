int f(void) { register int r = 1; return *&r; }
