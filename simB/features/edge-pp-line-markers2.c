# 1 "first.c"
#define M y +
# 5 "second.c"
int x = M ;
# 9 "third.c"
int z = "a" "b" 3;
