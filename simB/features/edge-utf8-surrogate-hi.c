char s[] = "í €";
