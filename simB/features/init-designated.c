struct pt { int x, y; };
struct line { struct pt a, b; int w[3]; };
struct line l1 = { .b.y = 4, .a = { 1, 2 }, .w = { [2] = 9 } };
struct line l2 = { { 1, 2 }, { 3, 4 }, { 5, 6, 7 } };
struct line l3 = { 1, 2, 3, 4, 5, 6, 7 };
int arr[] = { [5] = 1, [2] = 2, 3, [0] = 4 };
int mat[2][3] = { { 1 }, [1][1] = 5 };
char s1[] = "abc", s2[6] = "ab", s3[2][4] = { "ab", "cd" };
struct { char n[4]; int v; } tab[] = { { "a", 1 }, { .v = 2, .n = "b" }, [3] = { "d" } };
int f(void) { struct pt p = { .y = 1 }; int a[4] = { [1] = 2 }; return p.x + p.y + a[1] + (int)sizeof arr; }
