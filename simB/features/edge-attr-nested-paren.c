int a __attribute__((unknown((((1)))), aligned(8)));
