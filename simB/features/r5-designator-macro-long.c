/* member/variable renamed through a macro, as prefixed libraries do */
#define counter xyzlib_2_4_internal_event_counter_with_long_prefix
struct stats { int counter; };
struct stats st = { .counter = 1 };
int counter = 2;
