#line 5 "unterminated
int a;
