# 1 "one.c"
int x1;
# 7 "two.c"
int x2
